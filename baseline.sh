#!/bin/bash
# runs the repository's own test suite (guard off) and compares with the stable-pass list of /root/.vp/BASELINE.json
export GOFLAGS=-mod=mod GOPROXY=off GOSUMDB=off GOTOOLCHAIN=local
out=$(mktemp /tmp/baseline.XXXXXX.json)
(cd /repo && go test -json -vet=off -count=1 -timeout 25m ./... > $out 2>/dev/null)
python3 - "$out" <<'PY'
import json,sys
want=set(json.load(open('/root/.vp/BASELINE.json'))['stable_pass'])
got={}
for l in open(sys.argv[1]):
    try: e=json.loads(l)
    except: continue
    if e.get('Test') and e.get('Action') in('pass','fail'):
        got[e['Package']+'::'+e['Test']]=e['Action']
missing=[t for t in sorted(want) if got.get(t)!='pass']
print(f"stable tests: {len(want)}  passing now: {len(want)-len(missing)}")
for t in missing: print("NOT PASSING:",t,got.get(t))
sys.exit(1 if missing else 0)
PY
rc=$?; rm -f $out; exit $rc
