#!/bin/sh
# runs every check registered in MANIFEST.json at the given tier and prints one line per check
tier=${1:-quick}
for id in $(python3 -c "import json;print(' '.join(c['property_id'] for c in json.load(open('/verif/MANIFEST.json'))['checks']))"); do
  s=$(date +%s)
  out=$(./check.sh $id $tier 2>&1); rc=$?
  e=$(date +%s)
  echo "$id rc=$rc $((e-s))s $(echo "$out" | grep -c '^VIOLATION') violations, $(echo "$out" | grep -c '^KNOWN-FINDING') known"
  [ $rc -ne 0 ] && echo "$out" | grep -A3 '^VIOLATION' | cut -c1-300 | head -20
done
