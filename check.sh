#!/bin/sh
# usage: check.sh <Cnn> <quick|thorough>
# Rebuilds the checker against /repo's current working tree (build tag verif) and runs one check.
export GOFLAGS=-mod=mod GOPROXY=off GOSUMDB=off GOTOOLCHAIN=local
mkdir -p /verif/bin /verif/evidence
cd /verif/mc || exit 2
if ! flock /verif/bin/.lock go build -tags verif -o /verif/bin/tibcmc ./cmd/tibcmc 2>/verif/bin/build.log; then
  cat /verif/bin/build.log >&2
  echo "BUILD-ERROR: the checker does not build against /repo's working tree" >&2
  exit 2
fi
exec /verif/bin/tibcmc check "$1" "${2:-quick}"
