#!/usr/bin/env python3
import json, glob, re
rows = []
for f in sorted(glob.glob('/verif/seeded/results_batch*.json')):
    for k, r in sorted(json.load(open(f)).items()):
        caught = '; '.join(f"{c} ({', '.join(s[:2])})" for c, s in sorted(r.get('caught_by', {}).items())) or '—'
        if r.get('missed_by'):
            caught += ' · not by ' + '; '.join(r['missed_by'])
        note = r.get('strengthened', '')
        rows.append(f"| {k} | {r['what']} | {r['needs']} | {caught} | {note} |")
table = "| seed | what it changes | needs | caught by (signatures) | check strengthened? |\n|---|---|---|---|---|\n" + '\n'.join(rows)
p = '/verif/DESIGN.md'
s = open(p).read()
start = s.index('| seed | what it changes')
end = s.find('\n\n', start)
if end < 0: end = len(s)
s = s[:start] + table + s[end:]
open(p, 'w').write(s)
print(len(rows), 'rows')
