#!/bin/sh
# usage: seedtest.sh <patch.diff> <check id>...      TIER=quick|thorough (default quick)
# Applies a seeded change to /repo, runs the named checks, restores /repo and the committed evidence files.
patch=$1; shift
cd /repo || exit 3
if ! git apply --check "$patch" 2>/tmp/seedtest.err; then echo "PATCH DOES NOT APPLY: $(cat /tmp/seedtest.err)"; exit 3; fi
git apply "$patch"
for id in "$@"; do
  s=$(date +%s)
  out=$(/verif/check.sh $id ${TIER:-quick} 2>&1); rc=$?
  e=$(date +%s)
  echo "$id rc=$rc $((e-s))s: $(echo "$out" | grep -A1 '^VIOLATION' | grep signature | sed 's/ *signature: //' | sort -u | tr '\n' ';' | cut -c1-600)"
  [ $rc -eq 2 ] && echo "$out" | tail -5
done
git -C /repo checkout -- . ; git -C /repo clean -fdq
git -C /verif checkout -- evidence 2>/dev/null
rm -rf /verif/evidence/replays/*
