#!/usr/bin/env python3
"""Copies confirmed seeds from /tmp/seeds/<id>/<m>/ into /verif/seeded/<id>-<m>/ with a meta.json.
usage: assemble_seeds.py <results.json>   where results.json maps "<id>/<m>" -> {"caught_by": {...}, "strengthened": "...", "needs": "...", "what": "..."}"""
import json, os, shutil, sys
res = json.load(open(sys.argv[1]))
srcroot = sys.argv[2] if len(sys.argv) > 2 else '/tmp/seeds'

for key, r in sorted(res.items()):
    pid, m = key.split('/')
    src = f'{srcroot}/{pid}/{m}'
    dst = f'/verif/seeded/{pid}-{m}'
    if not os.path.exists(src + '/patch.diff'):
        print('missing', src); continue
    os.makedirs(dst, exist_ok=True)
    for f in ['patch.diff', 'patch.rebased.diff', 'demo_test.go', 'notes.md']:
        if os.path.exists(f'{src}/{f}'):
            shutil.copy(f'{src}/{f}', f'{dst}/{f}')
    confirm = open(src + '/confirm.txt').read() if os.path.exists(src + '/confirm.txt') else ''
    meta = {"property": pid, "seed": m, "breaks": r.get('what', ''), "needs_to_manifest": r.get('needs', ''),
            "independently_confirmed": confirm.strip().split('\n'),
            "ran": [f"{srcroot}/confirm.sh {pid} {m}  (scratch worktree: demo passes unmodified, fails with change; build; existing tests of touched packages)",
                    f"/verif/seedtest.sh seeded/{pid}-{m}/patch.diff " + ' '.join(sorted(r.get('caught_by', {}).keys()))],
            "caught_by": r.get('caught_by', {}), "not_caught_by": r.get('missed_by', []),
            "check_strengthened_because_of_this_seed": r.get('strengthened', ''), "note": r.get('note', '')}
    json.dump(meta, open(dst + '/meta.json', 'w'), indent=1)
    print('assembled', dst)
