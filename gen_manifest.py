#!/usr/bin/env python3
import json,subprocess
props=[json.loads(l) for l in open('/verif/properties.jsonl')]
texts={
"C01":("bounded exhaustive exploration of all relay orders of the scenario's packets on real SimApp chains; in every reached state an adversarial receive-message menu (wrong data, sequence, endpoints, proving chain, proof key, proof height, mangled proofs) is submitted and judged by an independent reference oracle","explicit-state BFS on the implementation + probe menu"),
"C02":("every interleaving of send/receive/ack/clean/receive-clean up to the depth bound; ghost counters of deliveries and application callbacks; every delivered or cleaned packet is replayed with a fresh proof in every later state; every enabled honest relay must succeed","explicit-state BFS on the implementation + replay probes"),
"C03":("all relay orders with success and error acknowledgements; acknowledgement-message probe menu (forged bytes, other packet's ack, wrong key, wrong chain, stale/future height, replay) judged by a reference oracle; step oracles for once-only processing, commitment deletion, ack never overwritten","explicit-state BFS on the implementation + probe menu"),
"C04":("all sequences of user NFT transfers (incl. adversarial native classes, invalid receivers, burns) and relayer deliveries up to the bound; identity ghost assigned by history; invariant: exactly one live holder per native identity, escrow released only to the matching identity","explicit-state BFS on the implementation with ghost-state invariants"),
"C05":("all sequences of partial multi-token transfers with boundary amounts (1 .. 2^64-1) and all delivery orders; conservation and escrow equations evaluated in big integers in every state","explicit-state BFS on the implementation with ghost-state invariants"),
"C06":("every case of a finite family (class strings x simple routes of 1-3 hops, each hop direct or through any other chain x failing hop) is executed on real chains; differential snapshot oracle (before vs after)","exhaustive scripted-execution enumeration on the implementation"),
"C07":("full product of header inputs (trusted height, height offset, revision, validator-set relation, every signer subset, forged signatures, header/block times at the boundaries, right/wrong trusted validators) against every client state reachable by a bounded history of accepted updates; judged by the light-client rule over integers","exhaustive input enumeration over BFS-reached client states"),
"C08":("full product of key universe x claimed values x proof mutations x heights x delay configurations for all three client types against real counterparties (a SimApp IAVL store; a go-ethereum secure account+storage trie); soundness and completeness oracles","exhaustive input enumeration on the implementation"),
"C09":("all interleavings of successful sends from two applications, a menu of failing sends and inbound traffic up to the bound; sequence/commitment oracles per step and NextSequenceSend invariant per state; failing sends must leave all stores byte-identical","explicit-state BFS on the implementation"),
"C10":("clean(N) offered for every N in every state together with all packet lifecycles on direct and relayed channels; accepted cleans judged against the ghost, diff of a clean confined to the clean key/receipts/acks up to N, clean point monotone on every transition, forged receive-clean probes, replays at or below the clean point","explicit-state BFS on the implementation + probe menu"),
"C11":("six rule sets on the relay chain x NFT transfers to valid/invalid receivers and a mock packet x all relay orders; routing ghost decides re-commit vs error ack; relay chain's application stores byte-identical and no application event; ack bytes unchanged end to end; differential against the direct transfer","explicit-state BFS on the implementation + differential runs"),
"C12":("every rule string up to a length bound over a meta-character-rich alphabet for accept/reject, every (rule field, identifier) pair up to a length bound in each position for matching, all rule lists of length <= 2 over {a,b,*}^3; compared with a literal field-wise reference","exhaustive input enumeration on the implementation"),
"C13":("for every announced packet, in every reached state and on every chain, receive and acknowledgement messages with another port or an added/removed/replaced relay chain (with the proof the altered packet's own previous hop gives) must be rejected","explicit-state BFS on the implementation + probe menu"),
"C14":("status grid over trusting periods x ages around the boundary x sub-second parts for the three client types, plus message-level runs (valid messages obtained before a time jump) inside and past the trusting period, ETH/BSC with canonical MPT proofs","exhaustive input enumeration + scripted executions on the implementation"),
"C15":("registry states reachable by a bounded number of successful governance operations; in each, every privileged message variant x every authority class on the message-router path and as signed transactions, and header updates x signer classes; effect only with the rightful authority, refusals leave the tibc store byte-identical, creating never overwrites, upgrading never changes the type","explicit-state BFS over registry states + exhaustive message x authority enumeration"),
"C16":("every chain of every state of three explored scenario graphs (incl. client heights containing 0x2f) is exported and re-imported into a fresh application; stores compared byte for byte and every enabled relayer action and packet re-submission executed on both copies","explicit-state BFS on the implementation with a differential export/import oracle"),
}
done=sorted(texts)
subprocess.check_call(['true'])
checks=[]
for p in props:
    if p['id'] in texts:
        t,tech=texts[p['id']]
        checks.append({"property_id":p['id'],"quick_cmd":f"./check.sh {p['id']} quick","thorough_cmd":f"./check.sh {p['id']} thorough",
          "evidence_file":f"/verif/evidence/{p['id']}.json","replay_cmd_template":"cat {path}","engine":"tibcmc",
          "level_claimed":{"category":"model_checking","text":t,"design_ref":"DESIGN.md §2 "+p['id']},
          "level_note":"trusted: Go, cosmos-sdk BaseApp/IAVL, cometbft commit verification, go-ethereum trie/RLP; coverage limited to the stated scenarios, alphabets and bounds (reported in the evidence file)",
          "technique":tech})
hooks=[l.split()[0] for l in subprocess.check_output(['git','-C','/repo','log','--format=%h %s']).decode().split('\n') if l and ' verif:' in l]
m={"version":1,"setup_cmd":"cd /verif/mc && GOFLAGS=-mod=mod GOPROXY=off GOSUMDB=off GOTOOLCHAIN=local go build -tags verif -o /verif/bin/tibcmc ./cmd/tibcmc",
 "hooks":{"guard":"verif","enable":"go build -tags verif (checks build /repo's working tree through a replace directive in /verif/mc/go.mod)","baseline_off_cmd":"cd /repo && go test -mod=mod -vet=off -count=1 -timeout 25m ./...","source_commits":hooks,"add_only":True},
 "engines":[{"name":"tibcmc","path":"/verif/mc","serves_properties":done,"kind_free_text":"hand-written explicit-state explorer and exhaustive input enumerators (Go) over real simapp chains on O(1)-snapshot in-memory DBs"}],
 "checks":checks,
 "not_applicable":[{"property_id":p['id'],"reason":"check not built yet (work in progress; design in DESIGN.md §2)"} for p in props if p['id'] not in texts],
 "notes":"Genuine defects found by the checks are repaired by fix: commits in /repo or listed in /verif/known_findings.json; see DESIGN.md."}
json.dump(m,open('/verif/MANIFEST.json','w'),indent=1)
print(len(checks),'checks')
