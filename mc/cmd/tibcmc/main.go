package main

import (
	"fmt"
	"os"
	"runtime/debug"

	"verif/mc/props"
)

var checks = map[string]func(tier string) int{
	"C01": props.CheckC01,
	"C02": props.CheckC02,
	"C03": props.CheckC03,
	"C04": props.CheckC04,
	"C05": props.CheckC05,
	"C06": props.CheckC06,
	"C07": props.CheckC07,
	"C08": props.CheckC08,
	"C09": props.CheckC09,
	"C10": props.CheckC10,
	"C11": props.CheckC11,
	"C12": props.CheckC12,
	"C13": props.CheckC13,
	"C14": props.CheckC14,
	"C15": props.CheckC15,
	"C16": props.CheckC16,
	"C17": props.CheckC17,
	"C18": props.CheckC18,
	"C19": props.CheckC19,
	"C20": props.CheckC20,
}

func main() {
	// explored states share structure with all their ancestors, so the live heap grows with the number of states: keep the
	// garbage on top of it small, and let the collector work harder near the limit instead of being killed
	debug.SetGCPercent(50)
	debug.SetMemoryLimit(40 << 30)
	if len(os.Args) >= 3 && os.Args[1] == "helper" && os.Args[2] == "export-default" {
		props.HelperExportDefault()
		return
	}
	if len(os.Args) >= 6 && os.Args[1] == "helper" && os.Args[2] == "fingerprints" {
		var p, d int
		fmt.Sscan(os.Args[4], &p)
		fmt.Sscan(os.Args[5], &d)
		props.HelperFingerprints(os.Args[3], p, d)
		return
	}
	if len(os.Args) == 3 && os.Args[1] == "replay" {
		os.Exit(props.ReplayFile(os.Args[2]))
	}
	if len(os.Args) < 3 || os.Args[1] != "check" {
		fmt.Fprintln(os.Stderr, "usage: tibcmc check <Cnn> [quick|thorough]")
		os.Exit(2)
	}
	id := os.Args[2]
	tier := "quick"
	if len(os.Args) > 3 {
		tier = os.Args[3]
	}
	if t := os.Getenv("VERIF_TIER"); t != "" && len(os.Args) <= 3 {
		tier = t
	}
	f, ok := checks[id]
	if !ok {
		fmt.Fprintln(os.Stderr, "unknown check", id)
		os.Exit(2)
	}
	os.Exit(f(tier))
}
