// Package snapdb is an in-memory implementation of cosmos-db's DB interface whose whole content can
// be snapshotted and restored in O(1) (copy-on-write B-tree clone). It is what lets the explorer treat
// a committed SimApp chain as a value: state = snapshot, successor = restore + a few blocks.
package snapdb

import (
	"bytes"
	"fmt"
	"sync"

	dbm "github.com/cosmos/cosmos-db"
	"github.com/google/btree"
)

type item struct {
	key, value []byte
}

func less(a, b item) bool { return bytes.Compare(a.key, b.key) < 0 }

// Snapshot is an immutable copy of a DB's content.
type Snapshot struct {
	t *btree.BTreeG[item]
}

// Len returns the number of keys in the snapshot.
func (s *Snapshot) Len() int { return s.t.Len() }

// Ascend calls fn for every pair in key order.
func (s *Snapshot) Ascend(fn func(k, v []byte) bool) {
	s.t.Ascend(func(i item) bool { return fn(i.key, i.value) })
}

// DB implements dbm.DB.
type DB struct {
	mtx sync.RWMutex
	t   *btree.BTreeG[item]
}

var _ dbm.DB = (*DB)(nil)

func New() *DB { return &DB{t: btree.NewG[item](8, less)} }

// Snapshot returns the current content; later writes to the DB do not affect it.
func (db *DB) Snapshot() *Snapshot {
	db.mtx.Lock()
	defer db.mtx.Unlock()
	return &Snapshot{t: db.t.Clone()}
}

// Restore replaces the content of the DB by that of the snapshot (which stays immutable).
func (db *DB) Restore(s *Snapshot) {
	db.mtx.Lock()
	defer db.mtx.Unlock()
	db.t = s.t.Clone()
}

func cp(b []byte) []byte {
	if b == nil {
		return nil
	}
	c := make([]byte, len(b))
	copy(c, b)
	return c
}

func (db *DB) Get(key []byte) ([]byte, error) {
	if len(key) == 0 {
		return nil, fmt.Errorf("key empty")
	}
	db.mtx.RLock()
	defer db.mtx.RUnlock()
	if i, ok := db.t.Get(item{key: key}); ok {
		return cp(i.value), nil
	}
	return nil, nil
}

func (db *DB) Has(key []byte) (bool, error) {
	if len(key) == 0 {
		return false, fmt.Errorf("key empty")
	}
	db.mtx.RLock()
	defer db.mtx.RUnlock()
	return db.t.Has(item{key: key}), nil
}

func (db *DB) Set(key, value []byte) error {
	if len(key) == 0 {
		return fmt.Errorf("key empty")
	}
	if value == nil {
		return fmt.Errorf("value nil")
	}
	db.mtx.Lock()
	defer db.mtx.Unlock()
	db.t.ReplaceOrInsert(item{key: cp(key), value: cp(value)})
	return nil
}

func (db *DB) SetSync(key, value []byte) error { return db.Set(key, value) }

func (db *DB) Delete(key []byte) error {
	if len(key) == 0 {
		return fmt.Errorf("key empty")
	}
	db.mtx.Lock()
	defer db.mtx.Unlock()
	db.t.Delete(item{key: key})
	return nil
}

func (db *DB) DeleteSync(key []byte) error { return db.Delete(key) }

func (db *DB) Close() error { return nil }

func (db *DB) Print() error { return nil }

func (db *DB) Stats() map[string]string {
	return map[string]string{"size": fmt.Sprint(db.t.Len())}
}

func (db *DB) NewBatch() dbm.Batch            { return &batch{db: db} }
func (db *DB) NewBatchWithSize(int) dbm.Batch { return &batch{db: db} }

func (db *DB) collect(start, end []byte, reverse bool) []item {
	db.mtx.RLock()
	defer db.mtx.RUnlock()
	var out []item
	visit := func(i item) bool { out = append(out, i); return true }
	switch {
	case start == nil && end == nil:
		db.t.Ascend(visit)
	case end == nil:
		db.t.AscendGreaterOrEqual(item{key: start}, visit)
	case start == nil:
		db.t.AscendLessThan(item{key: end}, visit)
	default:
		db.t.AscendRange(item{key: start}, item{key: end}, visit)
	}
	if reverse {
		for i, j := 0, len(out)-1; i < j; i, j = i+1, j-1 {
			out[i], out[j] = out[j], out[i]
		}
	}
	return out
}

func (db *DB) Iterator(start, end []byte) (dbm.Iterator, error) {
	if (start != nil && len(start) == 0) || (end != nil && len(end) == 0) {
		return nil, fmt.Errorf("key empty")
	}
	return &iter{items: db.collect(start, end, false), start: start, end: end}, nil
}

func (db *DB) ReverseIterator(start, end []byte) (dbm.Iterator, error) {
	if (start != nil && len(start) == 0) || (end != nil && len(end) == 0) {
		return nil, fmt.Errorf("key empty")
	}
	return &iter{items: db.collect(start, end, true), start: start, end: end}, nil
}

type iter struct {
	items      []item
	pos        int
	start, end []byte
}

func (it *iter) Domain() ([]byte, []byte) { return it.start, it.end }
func (it *iter) Valid() bool              { return it.pos < len(it.items) }
func (it *iter) Next() {
	if !it.Valid() {
		panic("iterator invalid")
	}
	it.pos++
}
func (it *iter) Key() []byte {
	if !it.Valid() {
		panic("iterator invalid")
	}
	return cp(it.items[it.pos].key)
}
func (it *iter) Value() []byte {
	if !it.Valid() {
		panic("iterator invalid")
	}
	return cp(it.items[it.pos].value)
}
func (it *iter) Error() error { return nil }
func (it *iter) Close() error { it.items = nil; return nil }

type op struct {
	del        bool
	key, value []byte
}

type batch struct {
	db   *DB
	ops  []op
	size int
	done bool
}

func (b *batch) Set(key, value []byte) error {
	if len(key) == 0 {
		return fmt.Errorf("key empty")
	}
	if value == nil {
		return fmt.Errorf("value nil")
	}
	if b.done {
		return fmt.Errorf("batch closed")
	}
	b.size += len(key) + len(value)
	b.ops = append(b.ops, op{key: cp(key), value: cp(value)})
	return nil
}

func (b *batch) Delete(key []byte) error {
	if len(key) == 0 {
		return fmt.Errorf("key empty")
	}
	if b.done {
		return fmt.Errorf("batch closed")
	}
	b.size += len(key)
	b.ops = append(b.ops, op{del: true, key: cp(key)})
	return nil
}

func (b *batch) Write() error {
	if b.done {
		return fmt.Errorf("batch closed")
	}
	b.db.mtx.Lock()
	defer b.db.mtx.Unlock()
	for _, o := range b.ops {
		if o.del {
			b.db.t.Delete(item{key: o.key})
		} else {
			b.db.t.ReplaceOrInsert(item{key: o.key, value: o.value})
		}
	}
	b.done = true
	b.ops = nil
	return nil
}

func (b *batch) WriteSync() error { return b.Write() }
func (b *batch) Close() error     { b.done = true; b.ops = nil; return nil }
func (b *batch) GetByteSize() (int, error) {
	if b.done {
		return 0, fmt.Errorf("batch closed")
	}
	return b.size, nil
}
