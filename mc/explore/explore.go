// Package explore is a level-synchronous breadth-first explicit-state explorer over a Model whose
// transition function is the real implementation. States are immutable values; successors are computed
// by worker goroutines, each owning its own set of application instances.
package explore

import (
	"fmt"
	"os"
	"runtime"
	"runtime/pprof"
	"sort"
	"sync"
	"time"
)

// Finding is a property violation candidate (classified later against the known-findings file).
type Finding struct {
	Property  string   `json:"property"`
	Signature string   `json:"signature"` // stable identifier of WHAT fails (used for known-finding matching)
	Detail    string   `json:"detail"`
	Path      []string `json:"path"`            // actions from the initial state
	Probe     string   `json:"probe,omitempty"` // the probe (if any) that failed in the state reached by Path
}

// Succ is one successor.
type Succ struct {
	Label    string
	State    any
	Key      string
	Findings []Finding // step findings (Path filled in by the engine)
	Outcome  string    // short outcome class, for vacuity statistics
}

// Model is implemented per scenario.
type Model interface {
	// NewWorker allocates worker-local resources (application instances).
	NewWorker() any
	Init(wk any) (state any, key string)
	// Expand checks state-level properties (invariants, probes) and, if withSucc, computes all successors.
	Expand(wk any, state any, depth int, withSucc bool) (succs []Succ, stateFindings []Finding, counters map[string]int)
}

// Config bounds a run.
type Config struct {
	Workers   int
	MaxDepth  int
	MaxStates int
	Deadline  time.Time
}

type node struct {
	state  any
	parent int
	label  string
	depth  int
}

// Result is what a run covered.
type Result struct {
	States            int
	Transitions       int
	MaxDepthCompleted int
	Exhaustive        bool // every execution within the stated bounds was enumerated (no deadline / state cap hit)
	Closed            bool // the frontier emptied: the reachable state space of the scenario is finite and fully covered
	CapHit            string
	Findings          []Finding
	Outcomes          map[string]int
	Counters          map[string]int
	SamplePaths       [][]string
	LevelSizes        []int
	nodes             []node
}

// DeepestPaths returns the action paths of up to limit nodes of the deepest level reached, evenly spread.
func (r *Result) DeepestPaths(limit int) [][]string {
	max := 0
	for _, n := range r.nodes {
		if n.depth > max {
			max = n.depth
		}
	}
	var idx []int
	for i, n := range r.nodes {
		if n.depth == max {
			idx = append(idx, i)
		}
	}
	var out [][]string
	step := 1
	if limit > 0 && len(idx) > limit {
		step = len(idx) / limit
	}
	for k := 0; k < len(idx) && (limit <= 0 || len(out) < limit); k += step {
		out = append(out, r.pathOf(idx[k]))
	}
	return out
}

// PathOf returns the action path of node i.
func (r *Result) pathOf(i int) []string {
	var p []string
	for i > 0 {
		p = append(p, r.nodes[i].label)
		i = r.nodes[i].parent
	}
	for a, b := 0, len(p)-1; a < b; a, b = a+1, b-1 {
		p[a], p[b] = p[b], p[a]
	}
	return p
}

// Run explores the model.
func Run(m Model, cfg Config) *Result {
	if cfg.Workers <= 0 {
		cfg.Workers = 1
	}
	res := &Result{Outcomes: map[string]int{}, Counters: map[string]int{}}
	workers := make([]any, cfg.Workers)
	for i := range workers {
		workers[i] = m.NewWorker()
	}
	s0, k0 := m.Init(workers[0])
	res.nodes = append(res.nodes, node{state: s0, parent: -1})
	seen := map[string]int{k0: 0}
	frontier := []int{0}
	depth := 0
	res.Exhaustive = true
	for len(frontier) > 0 {
		res.LevelSizes = append(res.LevelSizes, len(frontier))
		withSucc := depth < cfg.MaxDepth
		if os.Getenv("TIBCMC_MEMTRACE") != "" {
			runtime.GC()
			var ms runtime.MemStats
			runtime.ReadMemStats(&ms)
			fmt.Fprintf(os.Stderr, "[mem] depth=%d frontier=%d nodes=%d heapAlloc=%dMB\n", depth, len(frontier), len(res.nodes), ms.HeapAlloc>>20)
		}
		if p := os.Getenv("TIBCMC_HEAPPROF"); p != "" && !withSucc {
			runtime.GC()
			if f, err := os.Create(p); err == nil {
				pprof.WriteHeapProfile(f)
				f.Close()
			}
		}
		type out struct {
			succs    []Succ
			findings []Finding
			counters map[string]int
			panicked string
		}
		// the frontier is expanded in batches: all successors of one batch are held in memory at a time, not those of
		// the whole level (a level of 50 000 states has a million successors)
		const batch = 512
		var nextFrontier []int
		timedOut := false
		for lo := 0; lo < len(frontier) && !timedOut; lo += batch {
			hi := lo + batch
			if hi > len(frontier) {
				hi = len(frontier)
			}
			part := frontier[lo:hi]
			outs := make([]out, len(part))
			var wg sync.WaitGroup
			next := make(chan int, len(part))
			for i := range part {
				next <- i
			}
			close(next)
			var mu sync.Mutex
			for w := 0; w < cfg.Workers; w++ {
				wg.Add(1)
				go func(wk any) {
					defer wg.Done()
					for i := range next {
						if !cfg.Deadline.IsZero() && time.Now().After(cfg.Deadline) {
							mu.Lock()
							timedOut = true
							mu.Unlock()
							continue
						}
						func() {
							defer func() {
								if r := recover(); r != nil {
									outs[i].panicked = fmt.Sprint(r)
								}
							}()
							s, f, c := m.Expand(wk, res.nodes[part[i]].state, depth, withSucc)
							outs[i] = out{succs: s, findings: f, counters: c}
						}()
					}
				}(workers[w])
			}
			wg.Wait()
			if timedOut {
				break
			}
			for i, o := range outs {
				ni := part[i]
				path := res.pathOf(ni)
				if o.panicked != "" {
					panic(fmt.Sprintf("harness/implementation panic at path %v: %s", path, o.panicked))
				}
				for k, v := range o.counters {
					res.Counters[k] += v
				}
				for _, f := range o.findings {
					f.Path = path
					res.Findings = append(res.Findings, f)
				}
				for _, s := range o.succs {
					res.Transitions++
					res.Outcomes[s.Outcome]++
					for _, f := range s.Findings {
						f.Path = append(append([]string{}, path...), s.Label)
						res.Findings = append(res.Findings, f)
					}
					if _, ok := seen[s.Key]; ok {
						continue
					}
					if cfg.MaxStates > 0 && len(res.nodes) >= cfg.MaxStates {
						res.Exhaustive = false
						res.CapHit = fmt.Sprintf("state cap %d reached at depth %d", cfg.MaxStates, depth+1)
						continue
					}
					seen[s.Key] = len(res.nodes)
					res.nodes = append(res.nodes, node{state: s.State, parent: ni, label: s.Label, depth: depth + 1})
					nextFrontier = append(nextFrontier, len(res.nodes)-1)
				}
				// this state is expanded: its snapshot is no longer needed
				res.nodes[ni].state = nil
			}
		}
		if timedOut {
			res.Exhaustive = false
			res.CapHit = fmt.Sprintf("deadline reached while expanding depth %d", depth)
			break
		}
		res.MaxDepthCompleted = depth
		if !withSucc {
			// depth bound reached: the last frontier was checked but not expanded
			break
		}
		// free expanded states' memory: only frontier states are needed from now on
		for _, ni := range frontier {
			res.nodes[ni].state = nil
		}
		frontier = nextFrontier
		depth++
		if len(frontier) == 0 && res.CapHit == "" {
			res.Closed = true
		}
	}
	res.States = len(res.nodes)
	if p := os.Getenv("TIBCMC_HEAPPROF_END"); p != "" {
		runtime.GC()
		if f, err := os.Create(p); err == nil {
			pprof.WriteHeapProfile(f)
			f.Close()
		}
	}
	// sample paths: the first, a middle and the deepest node
	idx := []int{0, len(res.nodes) / 2, len(res.nodes) - 1}
	for _, i := range idx {
		if i >= 0 && i < len(res.nodes) {
			res.SamplePaths = append(res.SamplePaths, res.pathOf(i))
		}
	}
	sort.SliceStable(res.Findings, func(a, b int) bool { return len(res.Findings[a].Path) < len(res.Findings[b].Path) })
	return res
}
