package world

import (
	"fmt"
	"time"

	abci "github.com/cometbft/cometbft/abci/types"
	sdk "github.com/cosmos/cosmos-sdk/types"

	clienttypes "github.com/bianjieai/tibc-go/modules/tibc/core/02-client/types"
	packettypes "github.com/bianjieai/tibc-go/modules/tibc/core/04-packet/types"
	host "github.com/bianjieai/tibc-go/modules/tibc/core/24-host"
	"github.com/bianjieai/tibc-go/modules/tibc/core/exported"
)

// Standard chain names: >= 9 characters (ClientIdentifierValidator) and alphanumeric (legal in denom ids).
var StdNames = []string{"achainaaa", "bchainbbb", "cchainccc", "dchainddd"}

// WState is an immutable world value.
type WState struct {
	CS  []ChainState
	Now time.Time
}

// World is a set of App instances (one per chain) that world values can be mounted on. One World per worker.
type World struct {
	Chains []*Chain
	Now    time.Time
	// LastMsg is the message the last Relay* call delivered (so that it can be replayed verbatim later).
	LastMsg sdk.Msg
}

// Idx returns the index of the chain called name, or -1.
func (w *World) Idx(name string) int {
	for i, c := range w.Chains {
		if c.Name == name {
			return i
		}
	}
	return -1
}

// C returns the chain called name.
func (w *World) C(name string) *Chain {
	i := w.Idx(name)
	if i < 0 {
		panic("no chain " + name)
	}
	return w.Chains[i]
}

// Tick advances the clock by one step and returns the new time.
func (w *World) Tick() time.Time { w.Now = w.Now.Add(Step); return w.Now }

// Freeze returns the current world value.
func (w *World) Freeze() WState {
	s := WState{Now: w.Now}
	for _, c := range w.Chains {
		s.CS = append(s.CS, c.Freeze())
	}
	return s
}

// Mount loads a world value.
func (w *World) Mount(s WState) {
	for i, c := range w.Chains {
		c.Mount(s.CS[i])
	}
	w.Now = s.Now
}

// WorldOpts configures NewWorld.
type WorldOpts struct {
	Names          []string
	InitialHeights map[string]int64
	NAccounts      int
	// NoMesh skips client creation.
	NoMesh bool
}

// NewWorld creates the chains from genesis, a full mesh of Tendermint clients and the relayer registry.
func NewWorld(o WorldOpts) *World {
	w := &World{Now: StartTime}
	for _, n := range o.Names {
		w.Chains = append(w.Chains, NewChain(n, w.Now, GenesisOpts{InitialHeight: o.InitialHeights[n], NAccounts: o.NAccounts}))
	}
	for _, c := range w.Chains {
		c.CommitEmpty(w.Tick())
	}
	if !o.NoMesh {
		for _, c := range w.Chains {
			ctx := c.Ctx()
			for _, o := range w.Chains {
				if o == c {
					continue
				}
				cs, cons := o.ClientStateFor(o.Height())
				must(c.App.TIBCKeeper.ClientKeeper.CreateClient(ctx, o.Name, cs, cons))
				c.App.TIBCKeeper.ClientKeeper.RegisterRelayers(ctx, o.Name, []string{c.Accounts[0].Addr.String()})
			}
		}
		for _, c := range w.Chains {
			c.CommitEmpty(w.Tick())
			c.CommitEmpty(w.Tick())
		}
	}
	return w
}

// Shadow creates a World with fresh, uninitialised Apps for the same chains (for worker goroutines);
// it is only usable after Mount.
func (w *World) Shadow() *World {
	s := &World{Now: w.Now}
	for _, c := range w.Chains {
		app, db := NewApp(c.Name)
		s.Chains = append(s.Chains, &Chain{Name: c.Name, App: app, DB: db, Vals: c.Vals, ValKeys: c.ValKeys,
			Accounts: c.Accounts, InitialHeight: c.InitialHeight})
	}
	return s
}

// Relayer returns the relayer account of a chain.
func (c *Chain) Relayer() Account { return c.Accounts[0] }

// ClientLatest returns the latest height of on's client for chain of.
func (w *World) ClientLatest(on, of *Chain) (clienttypes.Height, bool) {
	cs, ok := on.App.TIBCKeeper.ClientKeeper.GetClientState(on.ReadCtx(on.LastTime()), of.Name)
	if !ok {
		return clienttypes.Height{}, false
	}
	return cs.GetLatestHeight().(clienttypes.Height), true
}

// TxRes is a compact transaction result.
type TxRes struct {
	Code      uint32
	Codespace string
	Log       string
	Events    []abci.Event
}

func (r TxRes) OK() bool { return r.Code == 0 }

func toRes(r *abci.ExecTxResult) TxRes {
	return TxRes{Code: r.Code, Codespace: r.Codespace, Log: r.Log, Events: r.Events}
}

// Tx delivers msgs signed by a in one block on c, followed by one empty block that makes the result provable.
func (w *World) Tx(c *Chain, a Account, msgs ...sdk.Msg) TxRes {
	r := c.Deliver(w.Tick(), a, msgs...)
	c.CommitEmpty(w.Tick())
	return toRes(r)
}

// UpdateClient brings on's client of chain `of` to of's last committed height (a real MsgUpdateClient
// transaction signed by the registered relayer). No-op if already there.
func (w *World) UpdateClient(on, of *Chain) TxRes {
	latest, ok := w.ClientLatest(on, of)
	if !ok {
		return TxRes{Code: 1, Log: "no client"}
	}
	if int64(latest.RevisionHeight) >= of.Height() {
		return TxRes{}
	}
	hdr := of.Header(of.Height(), latest)
	msg, err := clienttypes.NewMsgUpdateClient(of.Name, hdr, on.Relayer().Addr)
	must(err)
	r := on.Deliver(w.Tick(), on.Relayer(), msg)
	return toRes(r)
}

// ProvingChain says which chain a packet arriving at chain `at` must be proven from (the relayer's view of
// the protocol: the previous hop).
func ProvingChainForRecv(p packettypes.Packet, at string) string {
	if p.DestinationChain == at && p.RelayChain != "" {
		return p.RelayChain
	}
	return p.SourceChain
}

// ProvingChainForAck is the previous hop of an acknowledgement arriving at chain `at`.
func ProvingChainForAck(p packettypes.Packet, at string) string {
	if p.SourceChain == at && p.RelayChain != "" {
		return p.RelayChain
	}
	return p.DestinationChain
}

// RecvMsg builds a MsgRecvPacket for p delivered to `at`, proven from chain `from` at from's last height.
func (w *World) RecvMsg(p packettypes.Packet, from *Chain, signer sdk.AccAddress) (*packettypes.MsgRecvPacket, error) {
	key := host.PacketCommitmentKey(p.SourceChain, p.DestinationChain, p.Sequence)
	proof, ph, err := from.Proof(key, from.Height())
	if err != nil {
		return nil, err
	}
	return &packettypes.MsgRecvPacket{Packet: p, ProofCommitment: proof, ProofHeight: ph, Signer: signer.String()}, nil
}

// AckMsg builds a MsgAcknowledgement.
func (w *World) AckMsg(p packettypes.Packet, ack []byte, from *Chain, signer sdk.AccAddress) (*packettypes.MsgAcknowledgement, error) {
	key := host.PacketAcknowledgementKey(p.SourceChain, p.DestinationChain, p.Sequence)
	proof, ph, err := from.Proof(key, from.Height())
	if err != nil {
		return nil, err
	}
	return &packettypes.MsgAcknowledgement{Packet: p, Acknowledgement: ack, ProofAcked: proof, ProofHeight: ph, Signer: signer.String()}, nil
}

// RecvCleanMsg builds a MsgRecvCleanPacket.
func (w *World) RecvCleanMsg(cp packettypes.CleanPacket, from *Chain, signer sdk.AccAddress) (*packettypes.MsgRecvCleanPacket, error) {
	key := host.CleanPacketCommitmentKey(cp.SourceChain, cp.DestinationChain)
	proof, ph, err := from.Proof(key, from.Height())
	if err != nil {
		return nil, err
	}
	return &packettypes.MsgRecvCleanPacket{CleanPacket: cp, ProofCommitment: proof, ProofHeight: ph, Signer: signer.String()}, nil
}

// RelayRecv is the honest relay step of p to chain at: update at's client of the proving chain, then deliver.
func (w *World) RelayRecv(p packettypes.Packet, at *Chain) (TxRes, error) {
	from := w.C(ProvingChainForRecv(p, at.Name))
	if r := w.UpdateClient(at, from); !r.OK() {
		return r, fmt.Errorf("update client failed: %s", r.Log)
	}
	msg, err := w.RecvMsg(p, from, at.Relayer().Addr)
	if err != nil {
		return TxRes{}, err
	}
	w.LastMsg = msg
	return w.Tx(at, at.Relayer(), msg), nil
}

// RelayAck is the honest relay step of p's acknowledgement to chain at.
func (w *World) RelayAck(p packettypes.Packet, ack []byte, at *Chain) (TxRes, error) {
	from := w.C(ProvingChainForAck(p, at.Name))
	if r := w.UpdateClient(at, from); !r.OK() {
		return r, fmt.Errorf("update client failed: %s", r.Log)
	}
	msg, err := w.AckMsg(p, ack, from, at.Relayer().Addr)
	if err != nil {
		return TxRes{}, err
	}
	w.LastMsg = msg
	return w.Tx(at, at.Relayer(), msg), nil
}

// RelayClean is the honest relay of a clean packet to chain at.
func (w *World) RelayClean(cp packettypes.CleanPacket, at *Chain) (TxRes, error) {
	fromName := cp.SourceChain
	if cp.DestinationChain == at.Name && cp.RelayChain != "" {
		fromName = cp.RelayChain
	}
	from := w.C(fromName)
	if r := w.UpdateClient(at, from); !r.OK() {
		return r, fmt.Errorf("update client failed: %s", r.Log)
	}
	msg, err := w.RecvCleanMsg(cp, from, at.Relayer().Addr)
	if err != nil {
		return TxRes{}, err
	}
	w.LastMsg = msg
	return w.Tx(at, at.Relayer(), msg), nil
}

// SendMock sends a packet on the mock port through the packet keeper, the way an application module's
// Msg handler would: on a branch of the block context that is written only on success. One block + seal.
func (w *World) SendMock(c *Chain, p packettypes.Packet) error {
	ctx := c.Ctx()
	cctx, write := ctx.CacheContext()
	err := c.App.TIBCKeeper.PacketKeeper.SendPacket(cctx, p)
	if err == nil {
		write()
	}
	c.CommitEmpty(w.Tick())
	c.CommitEmpty(w.Tick())
	return err
}

// Try runs msg through the chain's message router on a throw-away branch of the committed state at the next
// block's time and reports the handler's error; nothing is persisted. changed reports whether the branch
// differed from the base after the handler returned (only meaningful on success).
func (w *World) Try(c *Chain, msg sdk.Msg) (res *sdk.Result, err error) {
	ctx := c.ReadCtx(w.Now.Add(Step))
	h := c.App.MsgServiceRouter().Handler(msg)
	if h == nil {
		return nil, fmt.Errorf("no handler for %T", msg)
	}
	defer func() {
		if r := recover(); r != nil {
			err = fmt.Errorf("panic: %v", r)
		}
	}()
	if vb, ok := msg.(interface{ ValidateBasic() error }); ok {
		if err := vb.ValidateBasic(); err != nil {
			return nil, err
		}
	}
	return h(ctx, msg)
}

// TIBC store accessors on the committed state.

func (c *Chain) rctx() sdk.Context { return c.ReadCtx(c.LastTime()) }

func (c *Chain) Commitment(src, dst string, seq uint64) []byte {
	return c.App.TIBCKeeper.PacketKeeper.GetPacketCommitment(c.rctx(), src, dst, seq)
}
func (c *Chain) HasReceipt(src, dst string, seq uint64) bool {
	return c.App.TIBCKeeper.PacketKeeper.HasPacketReceipt(c.rctx(), src, dst, seq)
}
func (c *Chain) AckHash(src, dst string, seq uint64) ([]byte, bool) {
	return c.App.TIBCKeeper.PacketKeeper.GetPacketAcknowledgement(c.rctx(), src, dst, seq)
}
func (c *Chain) CleanPoint(src, dst string) uint64 {
	return sdk.BigEndianToUint64(c.App.TIBCKeeper.PacketKeeper.GetCleanPacketCommitment(c.rctx(), src, dst))
}
func (c *Chain) NextSeqSend(src, dst string) uint64 {
	return c.App.TIBCKeeper.PacketKeeper.GetNextSequenceSend(c.rctx(), src, dst)
}
func (c *Chain) ClientStatus(of string) exported.Status {
	ctx := c.rctx()
	cs, ok := c.App.TIBCKeeper.ClientKeeper.GetClientState(ctx, of)
	if !ok {
		return exported.Unknown
	}
	return cs.Status(ctx, c.App.TIBCKeeper.ClientKeeper.ClientStore(ctx, of), c.App.AppCodec())
}

// EventAttrs returns the attribute maps of all events of the given type.
func EventAttrs(evs []abci.Event, typ string) []map[string]string {
	var out []map[string]string
	for _, e := range evs {
		if e.Type != typ {
			continue
		}
		m := map[string]string{}
		for _, a := range e.Attributes {
			m[a.Key] = a.Value
		}
		out = append(out, m)
	}
	return out
}
