// Package world is the deterministic multi-chain harness: real simapp.SimApp instances on
// snapshot-able in-memory DBs, a harness-owned clock, fixed keys, and the relayer-side operations
// (commit, sign header, update client, query proof, deliver tx).
package world

import (
	"context"
	"crypto/sha256"
	"encoding/json"
	"fmt"
	"math/rand"
	"sort"
	"sync/atomic"
	"time"

	"cosmossdk.io/log"
	sdkmath "cosmossdk.io/math"
	storetypes "cosmossdk.io/store/types"
	abci "github.com/cometbft/cometbft/abci/types"
	cmted25519 "github.com/cometbft/cometbft/crypto/ed25519"
	"github.com/cometbft/cometbft/crypto/tmhash"
	cmtproto "github.com/cometbft/cometbft/proto/tendermint/types"
	cmtprotoversion "github.com/cometbft/cometbft/proto/tendermint/version"
	cmttypes "github.com/cometbft/cometbft/types"
	cmtversion "github.com/cometbft/cometbft/version"
	"github.com/cosmos/cosmos-sdk/baseapp"
	codectypes "github.com/cosmos/cosmos-sdk/codec/types"
	cryptocodec "github.com/cosmos/cosmos-sdk/crypto/codec"
	"github.com/cosmos/cosmos-sdk/crypto/keys/secp256k1"
	cryptotypes "github.com/cosmos/cosmos-sdk/crypto/types"
	simtestutil "github.com/cosmos/cosmos-sdk/testutil/sims"
	sdk "github.com/cosmos/cosmos-sdk/types"
	authtypes "github.com/cosmos/cosmos-sdk/x/auth/types"
	banktypes "github.com/cosmos/cosmos-sdk/x/bank/types"
	stakingtypes "github.com/cosmos/cosmos-sdk/x/staking/types"

	clienttypes "github.com/bianjieai/tibc-go/modules/tibc/core/02-client/types"
	commitmenttypes "github.com/bianjieai/tibc-go/modules/tibc/core/23-commitment/types"
	host "github.com/bianjieai/tibc-go/modules/tibc/core/24-host"
	coretypes "github.com/bianjieai/tibc-go/modules/tibc/core/types"
	ibctm "github.com/bianjieai/tibc-go/modules/tibc/light-clients/07-tendermint/types"
	"github.com/bianjieai/tibc-go/simapp"

	"verif/mc/snapdb"
)

var (
	// StartTime is the harness clock origin.
	StartTime = time.Date(2020, 1, 2, 0, 0, 0, 0, time.UTC)
	// Step is the default clock advance per committed block.
	Step = 5 * time.Second

	TrustingPeriod  = time.Hour * 24 * 7 * 2
	UnbondingPeriod = time.Hour * 24 * 7 * 3
	MaxClockDrift   = time.Second * 10
)

// Account is a funded account with a deterministic key.
type Account struct {
	Name string
	Priv cryptotypes.PrivKey
	Addr sdk.AccAddress
	Num  uint64
}

func (a Account) String() string { return a.Addr.String() }

// DetAccount derives an account from a seed string.
func DetAccount(seed string, num uint64) Account {
	h := sha256.Sum256([]byte("verif-acc-" + seed))
	priv := &secp256k1.PrivKey{Key: h[:]}
	return Account{Name: seed, Priv: priv, Addr: sdk.AccAddress(priv.PubKey().Address()), Num: num}
}

// BlockMeta is what the relayer remembers about a committed block.
type BlockMeta struct {
	Time    time.Time
	AppHash []byte // app hash AFTER this block (goes into the next header)
	ResHash []byte // sha256 of the deterministic encoding of the block's results (tx results, events, validator updates)
}

// ChainState is the value part of a chain: everything needed to continue it on any App instance.
type ChainState struct {
	Snap *snapdb.Snapshot
	// Hist[i] describes block InitialHeight+i... index by height via Meta().
	Hist []BlockMeta
	ID   uint64 // unique id of this state (for mount caching)
}

// Chain is a mountable SimApp.
type Chain struct {
	Name          string
	App           *simapp.SimApp
	DB            *snapdb.DB
	Vals          *cmttypes.ValidatorSet
	ValKeys       []cmted25519.PrivKey
	Accounts      []Account // [0] relayer, [1..] users
	InitialHeight int64
	St            ChainState
	mountedID     uint64
	dirty         bool
}

var stateCounter atomic.Uint64

func nextID() uint64 { return stateCounter.Add(1) }

// ValKey derives a deterministic validator key.
func ValKey(seed string) cmted25519.PrivKey {
	h := sha256.Sum256([]byte("verif-val-" + seed))
	return cmted25519.GenPrivKeyFromSecret(h[:])
}

// GenesisOpts tunes chain construction.
type GenesisOpts struct {
	InitialHeight int64
	// Mutate lets a scenario edit the genesis state before InitChain.
	Mutate    func(app *simapp.SimApp, gs simapp.GenesisState)
	NAccounts int
}

// NewApp builds an un-initialised SimApp over a fresh snapdb.
func NewApp(chainID string) (*simapp.SimApp, *snapdb.DB) {
	db := snapdb.New()
	app := simapp.NewSimApp(log.NewNopLogger(), db, nil, true, simapp.EmptyAppOptions{},
		baseapp.SetChainID(chainID))
	return app, db
}

// NewChain creates a chain with one validator (power 1), relayer + user accounts, commits block 1.
func NewChain(name string, now time.Time, opts GenesisOpts) *Chain {
	app, db := NewApp(name)
	c := &Chain{Name: name, App: app, DB: db, InitialHeight: 1}
	if opts.InitialHeight > 1 {
		c.InitialHeight = opts.InitialHeight
	}
	vk := ValKey(name + "-0")
	c.ValKeys = []cmted25519.PrivKey{vk}
	c.Vals = cmttypes.NewValidatorSet([]*cmttypes.Validator{cmttypes.NewValidator(vk.PubKey(), 1)})

	n := opts.NAccounts
	if n == 0 {
		n = 4
	}
	var genAccs []authtypes.GenesisAccount
	var bals []banktypes.Balance
	amount, _ := sdkmath.NewIntFromString("10000000000000000000")
	for i := 0; i < n; i++ {
		seed := fmt.Sprintf("%s-%d", name, i)
		if i == 0 {
			seed = "relayer" // the same relayer key on every chain
		}
		a := DetAccount(seed, uint64(i))
		c.Accounts = append(c.Accounts, a)
		genAccs = append(genAccs, authtypes.NewBaseAccount(a.Addr, a.Priv.PubKey(), uint64(i), 0))
		bals = append(bals, banktypes.Balance{Address: a.Addr.String(),
			Coins: sdk.NewCoins(sdk.NewCoin(sdk.DefaultBondDenom, amount))})
	}

	gs := simapp.NewDefaultGenesisState(app.AppCodec())
	gs[authtypes.ModuleName] = app.AppCodec().MustMarshalJSON(authtypes.NewGenesisState(authtypes.DefaultParams(), genAccs))

	bondAmt := sdk.TokensFromConsensusPower(1, sdk.DefaultPowerReduction)
	var validators []stakingtypes.Validator
	var delegations []stakingtypes.Delegation
	for _, val := range c.Vals.Validators {
		pk, err := cryptocodec.FromCmtPubKeyInterface(val.PubKey)
		must(err)
		pkAny, err := codectypes.NewAnyWithValue(pk)
		must(err)
		validators = append(validators, stakingtypes.Validator{
			OperatorAddress: sdk.ValAddress(val.Address).String(), ConsensusPubkey: pkAny,
			Status: stakingtypes.Bonded, Tokens: bondAmt, DelegatorShares: sdkmath.LegacyOneDec(),
			UnbondingTime:     time.Unix(0, 0).UTC(),
			Commission:        stakingtypes.NewCommission(sdkmath.LegacyZeroDec(), sdkmath.LegacyZeroDec(), sdkmath.LegacyZeroDec()),
			MinSelfDelegation: sdkmath.ZeroInt(),
		})
		delegations = append(delegations, stakingtypes.NewDelegation(genAccs[0].GetAddress().String(),
			sdk.ValAddress(val.Address.Bytes()).String(), sdkmath.LegacyOneDec()))
	}
	var stakingGenesis stakingtypes.GenesisState
	app.AppCodec().MustUnmarshalJSON(gs[stakingtypes.ModuleName], &stakingGenesis)
	bals = append(bals, banktypes.Balance{
		Address: authtypes.NewModuleAddress(stakingtypes.BondedPoolName).String(),
		Coins:   sdk.Coins{sdk.NewCoin(stakingGenesis.Params.BondDenom, bondAmt.Mul(sdkmath.NewInt(int64(len(validators)))))},
	})
	stakingGenesis = *stakingtypes.NewGenesisState(stakingGenesis.Params, validators, delegations)
	gs[stakingtypes.ModuleName] = app.AppCodec().MustMarshalJSON(&stakingGenesis)
	gs[banktypes.ModuleName] = app.AppCodec().MustMarshalJSON(banktypes.NewGenesisState(
		banktypes.DefaultGenesisState().Params, bals, sdk.NewCoins(), []banktypes.Metadata{}, []banktypes.SendEnabled{}))

	// tibc: native chain name + relayer registry are filled in by the scenario through Mutate or later
	var tg coretypes.GenesisState
	app.AppCodec().MustUnmarshalJSON(gs[host.ModuleName], &tg)
	tg.ClientGenesis.NativeChainName = name
	gs[host.ModuleName] = app.AppCodec().MustMarshalJSON(&tg)

	if opts.Mutate != nil {
		opts.Mutate(app, gs)
	}
	stateBytes, err := json.Marshal(gs)
	must(err)
	_, err = app.InitChain(&abci.RequestInitChain{
		ChainId: name, Validators: []abci.ValidatorUpdate{}, ConsensusParams: simapp.DefaultConsensusParams,
		AppStateBytes: stateBytes, InitialHeight: c.InitialHeight, Time: now,
	})
	must(err)
	c.dirty = true
	c.commitBlock(now, nil)
	return c
}

func must(err error) {
	if err != nil {
		panic(err)
	}
}

// Height is the last committed height.
func (c *Chain) Height() int64 { return c.InitialHeight + int64(len(c.St.Hist)) - 1 }

// Meta returns the metadata of committed block h.
func (c *Chain) Meta(h int64) BlockMeta { return c.St.Hist[h-c.InitialHeight] }

// LastTime is the time of the last committed block.
func (c *Chain) LastTime() time.Time { return c.St.Hist[len(c.St.Hist)-1].Time }

// commitBlock runs FinalizeBlock+Commit for the next height with the given txs and records the result.
func (c *Chain) commitBlock(now time.Time, txs [][]byte) *abci.ResponseFinalizeBlock {
	h := c.InitialHeight + int64(len(c.St.Hist))
	res, err := c.App.FinalizeBlock(&abci.RequestFinalizeBlock{
		Height: h, Time: now, NextValidatorsHash: c.Vals.Hash(), Txs: txs,
		ProposerAddress: c.Vals.Validators[0].Address,
	})
	must(err)
	_, err = c.App.Commit()
	must(err)
	hist := make([]BlockMeta, len(c.St.Hist), len(c.St.Hist)+1)
	copy(hist, c.St.Hist)
	if DebugResults != nil {
		for _, tr := range res.TxResults {
			DebugResults(c.Name, h, tr)
		}
	}
	rh := sha256.New()
	for _, tr := range res.TxResults {
		bz, err := tr.Marshal()
		must(err)
		rh.Write(bz)
	}
	for _, ev := range res.Events {
		bz, err := ev.Marshal()
		must(err)
		rh.Write(bz)
	}
	hist = append(hist, BlockMeta{Time: now, AppHash: append([]byte{}, res.AppHash...), ResHash: rh.Sum(nil)})
	c.St = ChainState{Snap: nil, Hist: hist, ID: nextID()}
	c.mountedID = c.St.ID
	c.dirty = true
	return res
}

// Freeze makes sure c.St.Snap reflects the DB (lazy snapshot) and returns the state value.
func (c *Chain) Freeze() ChainState {
	if c.St.Snap == nil {
		c.St.Snap = c.DB.Snapshot()
	}
	c.dirty = false
	return c.St
}

// Mount makes the App continue from the given state.
func (c *Chain) Mount(st ChainState) {
	if st.Snap == nil {
		panic("mount of unfrozen state")
	}
	if c.mountedID == st.ID && !c.dirty {
		c.St = st
		return
	}
	c.DB.Restore(st.Snap)
	must(c.App.CommitMultiStore().LoadLatestVersion())
	c.St = st
	c.mountedID = st.ID
	c.dirty = false
}

// Ctx returns a context on the committed state (uncached: writes go to the working multistore and
// are committed by the next block — used only by scenario set-up, like the repository's own test harness).
func (c *Chain) Ctx() sdk.Context {
	c.dirty = true
	return c.App.BaseApp.NewUncachedContext(false, cmtproto.Header{
		ChainID: c.Name, Height: c.Height(), Time: c.LastTime(),
	})
}

// ReadCtx returns a branched context at the committed state with the given block time; nothing written
// to it is ever persisted.
func (c *Chain) ReadCtx(now time.Time) sdk.Context {
	ctx := c.App.BaseApp.NewUncachedContext(false, cmtproto.Header{ChainID: c.Name, Height: c.Height() + 1, Time: now})
	cctx, _ := ctx.CacheContext()
	return cctx
}

// Header builds and signs the Tendermint header of committed height h (its AppHash is the state after
// h-1, as in CometBFT).
func (c *Chain) Header(h int64, trustedHeight clienttypes.Height) *ibctm.Header {
	return c.HeaderWith(h, trustedHeight, nil)
}

// HeaderWith lets callers tweak the raw header before it is hashed and signed.
func (c *Chain) HeaderWith(h int64, trustedHeight clienttypes.Height, tweak func(*cmttypes.Header)) *ibctm.Header {
	meta := c.Meta(h)
	var appHash []byte
	if h > c.InitialHeight {
		appHash = c.Meta(h - 1).AppHash
	} else {
		appHash = nil
	}
	hdr := cmttypes.Header{
		Version: cmtprotoversion.Consensus{Block: cmtversion.BlockProtocol, App: 2},
		ChainID: c.Name, Height: h, Time: meta.Time,
		LastBlockID:        makeBlockID(make([]byte, tmhash.Size), 10_000, make([]byte, tmhash.Size)),
		LastCommitHash:     tmhash.Sum([]byte("last_commit")),
		DataHash:           tmhash.Sum([]byte("data_hash")),
		ValidatorsHash:     c.Vals.Hash(),
		NextValidatorsHash: c.Vals.Hash(),
		ConsensusHash:      tmhash.Sum([]byte("consensus_hash")),
		AppHash:            appHash,
		LastResultsHash:    tmhash.Sum([]byte("last_results_hash")),
		EvidenceHash:       tmhash.Sum([]byte("evidence_hash")),
		ProposerAddress:    c.Vals.Validators[0].Address,
	}
	if tweak != nil {
		tweak(&hdr)
	}
	return SignHeader(hdr, c.Vals, c.ValKeys, nil, c.Vals, trustedHeight)
}

func makeBlockID(hash []byte, total uint32, psh []byte) cmttypes.BlockID {
	return cmttypes.BlockID{Hash: hash, PartSetHeader: cmttypes.PartSetHeader{Total: total, Hash: psh}}
}

// SignHeader signs hdr with the keys of valSet whose index is in signers (nil = all) and attaches the
// trusted validators. keys[i] must belong to valSet.Validators[i] — use KeysFor to order them.
func SignHeader(hdr cmttypes.Header, valSet *cmttypes.ValidatorSet, keys []cmted25519.PrivKey, signers map[int]bool,
	trustedVals *cmttypes.ValidatorSet, trustedHeight clienttypes.Height) *ibctm.Header {
	blockID := makeBlockID(hdr.Hash(), 3, tmhash.Sum([]byte("part_set")))
	sigs := make([]cmttypes.CommitSig, len(valSet.Validators))
	for i, v := range valSet.Validators {
		if signers != nil && !signers[i] {
			sigs[i] = cmttypes.NewCommitSigAbsent()
			continue
		}
		vote := &cmtproto.Vote{
			Type: cmtproto.PrecommitType, Height: hdr.Height, Round: 1,
			BlockID: blockID.ToProto(), Timestamp: hdr.Time,
			ValidatorAddress: v.Address, ValidatorIndex: int32(i),
		}
		sig, err := keys[i].Sign(cmttypes.VoteSignBytes(hdr.ChainID, vote))
		must(err)
		sigs[i] = cmttypes.CommitSig{BlockIDFlag: cmttypes.BlockIDFlagCommit, ValidatorAddress: v.Address,
			Timestamp: hdr.Time, Signature: sig}
	}
	commit := &cmttypes.Commit{Height: hdr.Height, Round: 1, BlockID: blockID, Signatures: sigs}
	vs, err := valSet.ToProto()
	must(err)
	var tv *cmtproto.ValidatorSet
	if trustedVals != nil {
		tv, err = trustedVals.ToProto()
		must(err)
	}
	return &ibctm.Header{
		SignedHeader:      &cmtproto.SignedHeader{Header: hdr.ToProto(), Commit: commit.ToProto()},
		ValidatorSet:      vs,
		TrustedHeight:     trustedHeight,
		TrustedValidators: tv,
	}
}

// KeysFor orders keys like the validators of valSet.
func KeysFor(valSet *cmttypes.ValidatorSet, all []cmted25519.PrivKey) []cmted25519.PrivKey {
	out := make([]cmted25519.PrivKey, len(valSet.Validators))
	for i, v := range valSet.Validators {
		for _, k := range all {
			if string(k.PubKey().Address()) == string(v.Address) {
				out[i] = k
			}
		}
	}
	return out
}

// Revision is the revision number parsed from the chain id (0 for the harness's names).
func (c *Chain) Revision() uint64 { return clienttypes.ParseChainID(c.Name) }

// ClientStateFor returns a Tendermint client state + consensus state tracking c at height h.
func (c *Chain) ClientStateFor(h int64) (*ibctm.ClientState, *ibctm.ConsensusState) {
	height := clienttypes.NewHeight(c.Revision(), uint64(h))
	cs := ibctm.NewClientState(c.Name, ibctm.DefaultTrustLevel, TrustingPeriod, UnbondingPeriod, MaxClockDrift,
		height, commitmenttypes.GetSDKSpecs(), commitmenttypes.MerklePrefix{KeyPrefix: []byte("tibc")}, 0)
	hdr := c.Header(h, clienttypes.ZeroHeight())
	return cs, hdr.ConsensusState()
}

// Proof returns the ICS-23 proof of key in the tibc store as of committed height h-1, usable against the
// consensus state of height h.
func (c *Chain) Proof(key []byte, h int64) ([]byte, clienttypes.Height, error) {
	res, err := c.App.Query(context.Background(), &abci.RequestQuery{
		Path: fmt.Sprintf("store/%s/key", host.StoreKey), Height: h - 1, Data: key, Prove: true,
	})
	if err != nil {
		return nil, clienttypes.Height{}, err
	}
	if res.Code != 0 || res.ProofOps == nil {
		return nil, clienttypes.Height{}, fmt.Errorf("query failed: %s", res.Log)
	}
	mp, err := commitmenttypes.ConvertProofs(res.ProofOps)
	if err != nil {
		return nil, clienttypes.Height{}, err
	}
	bz, err := c.App.AppCodec().Marshal(&mp)
	if err != nil {
		return nil, clienttypes.Height{}, err
	}
	return bz, clienttypes.NewHeight(c.Revision(), uint64(res.Height)+1), nil
}

// AccSeq reads the account sequence from committed state.
func (c *Chain) AccSeq(a Account) uint64 {
	ctx := c.ReadCtx(c.LastTime())
	acc := c.App.AccountKeeper.GetAccount(ctx, a.Addr)
	if acc == nil {
		return 0
	}
	return acc.GetSequence()
}

// SignTx builds and signs a transaction.
func (c *Chain) SignTx(a Account, msgs ...sdk.Msg) []byte {
	txCfg := c.App.GetTxConfig()
	tx, err := simtestutil.GenSignedMockTx(rand.New(rand.NewSource(1)), txCfg, msgs,
		sdk.Coins{sdk.NewInt64Coin(sdk.DefaultBondDenom, 0)}, 20_000_000, c.Name,
		[]uint64{a.Num}, []uint64{c.AccSeq(a)}, a.Priv)
	must(err)
	bz, err := txCfg.TxEncoder()(tx)
	must(err)
	return bz
}

// Deliver commits one block at time now containing one transaction with msgs signed by a.
func (c *Chain) Deliver(now time.Time, a Account, msgs ...sdk.Msg) *abci.ExecTxResult {
	res := c.commitBlock(now, [][]byte{c.SignTx(a, msgs...)})
	return res.TxResults[0]
}

// DeliverRaw commits one block with the given raw transactions.
func (c *Chain) DeliverRaw(now time.Time, txs ...[]byte) *abci.ResponseFinalizeBlock {
	return c.commitBlock(now, txs)
}

// CommitEmpty commits one empty block.
func (c *Chain) CommitEmpty(now time.Time) { c.commitBlock(now, nil) }

// DumpStores returns the sorted KV pairs of the named stores at the committed state, keyed "store|key".
func (c *Chain) DumpStores(names ...string) []KV {
	var out []KV
	ctx := c.ReadCtx(c.LastTime())
	for _, n := range names {
		key := c.App.GetKey(n)
		if key == nil {
			panic("no store " + n)
		}
		out = append(out, DumpStore(ctx, n, key, nil)...)
	}
	return out
}

// KV is one dumped pair.
type KV struct {
	Store string
	K, V  []byte
}

// DumpStore dumps one store (optionally under prefix) from ctx.
func DumpStore(ctx sdk.Context, name string, key storetypes.StoreKey, prefix []byte) []KV {
	var out []KV
	st := ctx.KVStore(key)
	var it storetypes.Iterator
	if prefix == nil {
		it = st.Iterator(nil, nil)
	} else {
		it = storetypes.KVStorePrefixIterator(st, prefix)
	}
	defer it.Close()
	for ; it.Valid(); it.Next() {
		out = append(out, KV{Store: name, K: append([]byte{}, it.Key()...), V: append([]byte{}, it.Value()...)})
	}
	return out
}

// HashKVs hashes a dump, optionally skipping keys for which skip returns true.
func HashKVs(kvs []KV, skip func(KV) bool) [32]byte {
	h := sha256.New()
	for _, kv := range kvs {
		if skip != nil && skip(kv) {
			continue
		}
		fmt.Fprintf(h, "%s|%d|%d|", kv.Store, len(kv.K), len(kv.V))
		h.Write(kv.K)
		h.Write(kv.V)
	}
	var out [32]byte
	copy(out[:], h.Sum(nil))
	return out
}

// DiffKVs returns a human-readable diff of two sorted dumps.
func DiffKVs(a, b []KV) []string {
	am := map[string][]byte{}
	bm := map[string][]byte{}
	for _, kv := range a {
		am[kv.Store+"|"+string(kv.K)] = kv.V
	}
	for _, kv := range b {
		bm[kv.Store+"|"+string(kv.K)] = kv.V
	}
	var out []string
	for k, v := range am {
		if w, ok := bm[k]; !ok {
			out = append(out, fmt.Sprintf("- %q", k))
		} else if string(v) != string(w) {
			out = append(out, fmt.Sprintf("~ %q: %x -> %x", k, v, w))
		}
	}
	for k, w := range bm {
		if _, ok := am[k]; !ok {
			out = append(out, fmt.Sprintf("+ %q = %x", k, w))
		}
	}
	sort.Strings(out)
	return out
}

// ClientHeightZero is the zero height.
func (c *Chain) ClientHeightZero() clienttypes.Height { return clienttypes.ZeroHeight() }

// DebugResults, if set, receives every transaction result (debugging aid).
var DebugResults func(chain string, height int64, r *abci.ExecTxResult)
