package props

import (
	"encoding/json"
	"fmt"
	"os"
	"os/exec"
	"regexp"
	"sort"
	"strings"
	"sync"
	"time"

	abci "github.com/cometbft/cometbft/abci/types"
	cmtproto "github.com/cometbft/cometbft/proto/tendermint/types"

	gethtypes "github.com/ethereum/go-ethereum/core/types"

	bsctypes "github.com/bianjieai/tibc-go/modules/tibc/light-clients/08-bsc/types"
	ethtypes "github.com/bianjieai/tibc-go/modules/tibc/light-clients/09-eth/types"
	"github.com/bianjieai/tibc-go/simapp"

	"verif/mc/explore"
	"verif/mc/report"
	"verif/mc/world"
)

// Reimport exports chain c (every registered module except evidence, whose store key simapp never mounts) and starts a
// fresh application from the exported genesis. The new chain continues at the exported height with the same validators.
func Reimport(c *world.Chain, now time.Time) (n *world.Chain, err error) {
	defer func() {
		if r := recover(); r != nil {
			n, err = nil, fmt.Errorf("panic during export / import: %v", r)
		}
	}()
	return reimport(c, now)
}

func reimport(c *world.Chain, now time.Time) (*world.Chain, error) {
	var mods []string
	for _, m := range c.App.ModuleManager.ModuleNames() {
		if m != "evidence" {
			mods = append(mods, m)
		}
	}
	// Same steps as simapp's ExportAppStateAndValidators(false, nil, mods), but on a context over the committed
	// multistore: the application's check-state context, which that function uses, is only refreshed by Commit and
	// does not follow the harness's snapshot mounting.
	ectx := c.App.BaseApp.NewUncachedContext(true, cmtproto.Header{Height: c.App.LastBlockHeight()})
	genState, err := c.App.ModuleManager.ExportGenesisForModules(ectx, c.App.AppCodec(), mods)
	if err != nil {
		return nil, fmt.Errorf("export: %w", err)
	}
	appState, err := json.Marshal(genState)
	if err != nil {
		return nil, err
	}
	ex := struct {
		AppState []byte
		Height   int64
	}{appState, c.App.LastBlockHeight() + 1}
	app, db := world.NewApp(c.Name)
	gs := simapp.NewDefaultGenesisState(app.AppCodec())
	var exported map[string]json.RawMessage
	if err := json.Unmarshal(ex.AppState, &exported); err != nil {
		return nil, err
	}
	for k, v := range exported {
		gs[k] = v
	}
	bz, err := json.Marshal(gs)
	if err != nil {
		return nil, err
	}
	n := &world.Chain{Name: c.Name, App: app, DB: db, Vals: c.Vals, ValKeys: c.ValKeys, Accounts: c.Accounts, InitialHeight: ex.Height}
	if _, err := app.InitChain(&abci.RequestInitChain{ChainId: c.Name, ConsensusParams: simapp.DefaultConsensusParams,
		AppStateBytes: bz, InitialHeight: ex.Height, Time: now}); err != nil {
		return nil, fmt.Errorf("init chain: %w", err)
	}
	// three blocks, so that the state is provable (version h-1 must exist for a proof against header h)
	for i := 0; i < 3; i++ {
		n.CommitEmpty(now.Add(time.Duration(i) * world.Step))
	}
	return n, nil
}

var heightKeyRe = regexp.MustCompile(`(consensusStates/|iterateConsensusStates)(.{16})`)

// keyFamily names the family of a store key for finding signatures (chain names and numbers abstracted).
func keyFamily(store string, k []byte) string {
	s := string(k)
	parts := strings.Split(s, "/")
	switch {
	case store == "tibc" && parts[0] == "clients" && len(parts) >= 3:
		rest := strings.Join(parts[2:], "/")
		if strings.HasPrefix(rest, "consensusStates/") {
			if strings.HasSuffix(rest, "/processedTime") {
				return "tibc:clients/*/consensusStates/*/processedTime"
			}
			return "tibc:clients/*/consensusStates/*"
		}
		if strings.HasPrefix(rest, "iterateConsensusStates") {
			return "tibc:clients/*/iterateConsensusStates*"
		}
		return "tibc:clients/*/" + strings.Split(rest, "/")[0]
	case store == "tibc":
		return "tibc:" + parts[0]
	default:
		if len(k) > 0 && k[0] < 0x20 {
			return fmt.Sprintf("%s:prefix-0x%02x", store, k[0])
		}
		return store + ":" + parts[0]
	}
}

// compareDumps reports the key families that differ between the original and the re-imported chain.
func compareDumps(orig, re *world.Chain) map[string]string {
	out := map[string]string{}
	// the nft and mt stores belong to external modules (zero-valued counters are not re-created on import): they are
	// compared through their holdings below, the TIBC stores byte for byte
	a := orig.DumpStores("tibc", "NFT", "MT")
	b := re.DumpStores("tibc", "NFT", "MT")
	if fmt.Sprint(NftHoldings(orig)) != fmt.Sprint(NftHoldings(re)) {
		out["changed:nft-holdings"] = fmt.Sprintf("%v vs %v", NftHoldings(orig), NftHoldings(re))
	}
	if mo, mr := MtHoldings(orig), MtHoldings(re); fmt.Sprint(mo.Bal) != fmt.Sprint(mr.Bal) {
		out["changed:mt-balances"] = fmt.Sprintf("%v vs %v", mo.Bal, mr.Bal)
	}
	am, bm := map[string]world.KV{}, map[string]world.KV{}
	for _, kv := range a {
		am[kv.Store+"|"+string(kv.K)] = kv
	}
	for _, kv := range b {
		bm[kv.Store+"|"+string(kv.K)] = kv
	}
	for k, kv := range am {
		w, ok := bm[k]
		if !ok {
			f := keyFamily(kv.Store, kv.K)
			if strings.HasPrefix(f, "tibc:clients/*/consensusStates") && strings.Contains(string(kv.K[strings.Index(string(kv.K), "consensusStates/")+16:]), "/") && !strings.HasSuffix(string(kv.K), "/processedTime") {
				f += "(height-bytes-contain-0x2f)"
			} else if strings.HasSuffix(f, "processedTime") && strings.Count(string(kv.K), "/") > 4 {
				f += "(height-bytes-contain-0x2f)"
			}
			out["lost:"+f] = fmt.Sprintf("%q", k)
		} else if string(w.V) != string(kv.V) {
			out["changed:"+keyFamily(kv.Store, kv.K)] = fmt.Sprintf("%q: %x -> %x", k, kv.V, w.V)
		}
	}
	for k, kv := range bm {
		if _, ok := am[k]; !ok {
			out["invented:"+keyFamily(kv.Store, kv.K)] = fmt.Sprintf("%q", k)
		}
	}
	return out
}

// CheckC16: genesis export and re-import preserve all protocol state.
func CheckC16(tier string) int {
	start := time.Now()
	var mu sync.Mutex
	var findings []explore.Finding
	addF := func(path []string, sig, detail string) {
		mu.Lock()
		defer mu.Unlock()
		for _, f := range findings {
			if f.Signature == sig {
				return
			}
		}
		findings = append(findings, explore.Finding{Property: "C16", Signature: sig, Detail: detail, Path: path})
	}
	statesChecked, reimports, continuations := 0, 0, 0
	var samples []any

	// ---- part 0: the unfiltered export of simapp (run in a sub-process: x/evidence panics in a goroutine)
	if out, err := exec.Command(os.Args[0], "helper", "export-default").CombinedOutput(); err != nil || !strings.Contains(string(out), "EXPORT-OK") {
		msg := strings.TrimSpace(string(out))
		if i := strings.Index(msg, "\n"); i > 0 {
			msg = msg[:i]
		}
		addF([]string{"simapp", "ExportAppStateAndValidators(false, nil, nil)"}, "simapp-unfiltered-export-fails", msg)
	}

	// ---- part 1: every state of the packet / token graphs up to a depth, each chain exported and re-imported
	depth := 4
	if tier == "thorough" {
		depth = 7
	}
	stateCheck := func(m *PktModel, w *world.World, st PState) []explore.Finding {
		mu.Lock()
		statesChecked++
		mu.Unlock()
		for i, c := range w.Chains {
			re, err := Reimport(c, w.Now.Add(world.Step))
			mu.Lock()
			reimports++
			mu.Unlock()
			if err != nil {
				addF(nil, "export-or-import-fails", err.Error())
				continue
			}
			for sig, detail := range compareDumps(c, re) {
				addF([]string{m.Name, c.Name}, "state-"+sig, detail)
			}
			// continuation: every honest relayer action enabled in this state gives the same verdict and the same protocol
			// state on the original world and on the world whose chain i is the re-imported one
			w2 := &world.World{Now: w.Now.Add(4 * world.Step)}
			for j, o := range w.Chains {
				if j == i {
					w2.Chains = append(w2.Chains, re)
				} else {
					w2.Chains = append(w2.Chains, o)
				}
			}
			base1 := w.Freeze()
			base2 := w2.Freeze()
			for _, ra := range m.relayerActions(w, st.G) {
				if ra.at != c.Name && !involves(ra, c.Name) {
					continue
				}
				// effect of the action: the final value of every non-client key the action touched, plus token holdings
				finals := map[int]map[string]string{}
				run := func(ww *world.World, base world.WState) (bool, map[string]string) {
					ww.Mount(base)
					at := ww.C(ra.at)
					before := filterClients(at.DumpStores("tibc", "NFT", "MT"))
					var res world.TxRes
					var err error
					switch ra.kind {
					case "recv":
						res, err = ww.RelayRecv(ra.pkt, at)
					case "ack":
						res, err = ww.RelayAck(ra.pkt, ra.ack, at)
					case "recvclean":
						res, err = ww.RelayClean(ra.clean, at)
					default:
						return false, nil
					}
					after := filterClients(at.DumpStores("tibc", "NFT", "MT"))
					eff := map[string]string{"holdings": fmt.Sprint(NftHoldings(at), MtHoldings(at).Bal)}
					am := map[string]string{}
					for _, kv := range after {
						am[kv.Store+"|"+string(kv.K)] = fmt.Sprintf("%x", kv.V)
					}
					bm := map[string]string{}
					for _, kv := range before {
						bm[kv.Store+"|"+string(kv.K)] = fmt.Sprintf("%x", kv.V)
					}
					for k, v := range am {
						if bm[k] != v {
							eff[k] = v
						}
					}
					for k := range bm {
						if _, ok := am[k]; !ok {
							eff[k] = "<deleted>"
						}
					}
					eff["\x00final"] = ""
					finals[len(finals)] = am
					return err == nil && res.OK(), eff
				}
				var differing map[string]bool
				sameEffect := func(e1, e2 map[string]string, w1, w2 *world.World) bool {
					differing = map[string]bool{}
					fam := func(k string) string {
						p := strings.SplitN(k, "|", 2)
						if len(p) != 2 {
							return k
						}
						return keyFamily(p[0], []byte(p[1]))
					}
					// a key touched in one world must end with the same value in the other (it may have been there already)
					final := func(ww *world.World, k string) string {
						idx := 0
						if ww == w2 {
							idx = 1
						}
						if v, ok := finals[idx][k]; ok {
							return v
						}
						return "<deleted>"
					}
					delete(e1, "\x00final")
					delete(e2, "\x00final")
					for k, v := range e1 {
						if k == "holdings" {
							if e2[k] != v {
								differing["holdings"] = true
							}
							continue
						}
						if v2, ok := e2[k]; ok && v2 != v {
							differing[fam(k)] = true
						} else if !ok && final(w2, k) != v {
							differing[fam(k)] = true
						}
					}
					for k, v := range e2 {
						if _, ok := e1[k]; !ok && k != "holdings" && final(w1, k) != v {
							differing[fam(k)] = true
						}
					}
					return len(differing) == 0
				}
				ok1, h1 := run(w, base1)
				ok2, h2 := run(w2, base2)
				mu.Lock()
				continuations++
				mu.Unlock()
				if ok1 != ok2 {
					addF([]string{m.Name, c.Name, ra.label}, "reimported-chain-reacts-differently:"+ra.kind+":"+roleOf(ra, c.Name), fmt.Sprintf("%s: original accepted=%v, with re-imported %s accepted=%v", ra.label, ok1, c.Name, ok2))
				} else if ok1 && !sameEffect(h1, h2, w, w2) {
					addF([]string{m.Name, c.Name, ra.label}, "reimported-chain-reaches-different-state:"+ra.kind+":"+roleOf(ra, c.Name)+":differs-in"+famList(differing), fmt.Sprintf("%s: original effect %s, re-imported effect %s", ra.label, h1, h2))
				}
			}
			// replays: every known packet re-submitted to the re-imported chain with a fresh proof must get the same verdict
			for _, r := range st.G.Pkts {
				hops := route(r.P)
				for hi := 1; hi < len(hops); hi++ {
					if hops[hi] != c.Name {
						continue
					}
					verdict := func(ww *world.World, base world.WState) string {
						ww.Mount(base)
						at := ww.C(c.Name)
						from := ww.C(world.ProvingChainForRecv(r.P, at.Name))
						if ur := ww.UpdateClient(at, from); !ur.OK() {
							return "client-update-failed"
						}
						msg, err := ww.RecvMsg(r.P, from, at.Relayer().Addr)
						if err != nil {
							return "no-proof"
						}
						if _, err := ww.Try(at, msg); err != nil {
							return "rejected"
						}
						return "accepted"
					}
					v1, v2 := verdict(w, base1), verdict(w2, base2)
					mu.Lock()
					continuations++
					mu.Unlock()
					if v1 != v2 {
						addF([]string{m.Name, c.Name, "resubmit " + pid(r.P)}, "reimported-chain-reacts-differently:resubmitted-packet:"+v1+"->"+v2,
							fmt.Sprintf("MsgRecvPacket for %s on %s: original %s, re-imported %s", pid(r.P), c.Name, v1, v2))
					}
				}
			}
			w.Mount(base1)
		}
		mu.Lock()
		if len(samples) < 3 {
			samples = append(samples, map[string]any{"scenario": m.Name, "ghost_packets": len(st.G.Pkts)})
		}
		mu.Unlock()
		return nil
	}
	props := map[string]bool{"C16": true}
	m1 := withCleans(core3("core3+cleans", props, ""), 2)
	m1.StateCheck = stateCheck
	m2 := nft3("nft3", props, NftScenario{MaxUserTx: 3, Receivers: []int{1}, BadReceiver: true, Relays: true}, "")
	m2.StateCheck = stateCheck
	// heights whose big-endian bytes contain 0x2f ('/'): chain B starts at 44 so that client updates land on 47
	m3 := core2("core2-heights-around-47", props, "")
	m3.WorldOpts = world.WorldOpts{InitialHeights: map[string]int64{B: 40, A: 296}}
	m3.StateCheck = stateCheck
	// destinations that are no chain at all (a two-character name, a name containing the path separator), reached
	// through a relay chain: any user can put such a packet on record with MsgNftTransfer
	m4 := nft3("nft3-odd-destination-names", props, NftScenario{MaxUserTx: 2, Receivers: []int{1}, OddDests: []string{"c7", "x/y"}}, "")
	m4.StateCheck = stateCheck
	models := []*PktModel{m1, m2, m3, m4}
	depths := []int{depth, depth, depth + 1, depth}
	var scen []map[string]any
	states, trans := 0, 0
	exhaustive := true
	per := tierBudget(tier, 100*time.Second, 15*time.Minute) / time.Duration(len(models))
	for i, m := range models {
		r := explore.Run(m, explore.Config{Workers: workers(), MaxDepth: depths[i], Deadline: time.Now().Add(per)})
		states += r.States
		trans += r.Transitions
		if !r.Exhaustive {
			exhaustive = false
		}
		scen = append(scen, map[string]any{"name": m.Name, "states": r.States, "transitions": r.Transitions, "depth_bound": depths[i], "cap_hit": r.CapHit})
		fmt.Fprintf(os.Stderr, "[C16] scenario %s: states=%d transitions=%d %s (%.1fs)\n", m.Name, r.States, r.Transitions, r.CapHit, time.Since(start).Seconds())
	}
	// ---- part 2: a chain holding a BSC client (after header updates incl. an epoch) and an ETH client (after fork
	// switches) is exported and re-imported; both must then react identically to the next headers
	evmReimports := 0
	{
		w := world.NewWorld(world.WorldOpts{Names: []string{A, B}})
		a := w.C(A)
		ck := a.App.TIBCKeeper.ClientKeeper
		ctx := a.Ctx()
		sc := bscScenario{N: 3, Epoch: 4}
		gen, vals := sc.genesis()
		gen.Time = uint64(w.Now.Unix())
		var vb [][]byte
		for _, v := range sortedAddrs(vals) {
			vb = append(vb, v.Bytes())
		}
		must(ck.CreateClient(ctx, bscName, &bsctypes.ClientState{Header: gen, ChainId: bscChainID, Epoch: sc.Epoch, BlockInteval: 3, Validators: vb, ContractAddress: make([]byte, 20), TrustingPeriod: 1 << 30},
			&bsctypes.ConsensusState{Timestamp: gen.Time, Number: gen.Height, Root: gen.Root}))
		st := bscState{Ghost: bscGhost{Number: gen.Height.RevisionHeight, Vals: vals, Pending: vals, Signers: map[uint64]int{}, Epoch: sc.Epoch}}
		parent := gen
		nextBsc := func() *bsctypes.Header {
			for _, s := range sc.menu(st) {
				if st.Ghost.expect(s) && !strings.Contains(s.Label, "corrupted") {
					h := s.build(parent)
					st = bscState{Hist: append(st.Hist, s), Ghost: st.Ghost.apply(s)}
					return h
				}
			}
			panic("no valid bsc header")
		}
		for i := 0; i < 6; i++ {
			h := nextBsc()
			must(ck.UpdateClient(ctx, bscName, h))
			parent = *h
		}
		ethtypes.SealCheck = false
		g := ethGenesis()
		g.Time = uint64(w.Now.Unix()) - 100
		gh := toRepoHeader(g)
		must(ck.CreateClient(ctx, ethName, &ethtypes.ClientState{Header: *gh, ChainId: 1, ContractAddress: make([]byte, 20), TrustingPeriod: 1 << 30},
			&ethtypes.ConsensusState{Timestamp: g.Time, Number: gh.Height, Root: g.Root[:]}))
		n0 := ethChild(g, 5, "n0", "0")
		n1 := ethChild(g, 6, "n1", "1")
		n2 := ethChild(n0, 5, "n2", "2")
		n3 := ethChild(n1, 5, "n3", "3")
		for _, h := range []gethtypes.Header{n0, n1, n2, n3} {
			must(ck.UpdateClient(ctx, ethName, toRepoHeader(h)))
		}
		a.CommitEmpty(w.Tick())
		a.CommitEmpty(w.Tick())
		re, err := Reimport(a, w.Now.Add(world.Step))
		evmReimports++
		if err != nil {
			addF([]string{"evm-clients"}, "export-or-import-fails", err.Error())
		} else {
			for sig, detail := range compareDumps(a, re) {
				addF([]string{"evm-clients", A}, "state-"+sig+":evm-clients", detail)
			}
			// continuation: the next BSC header and two ETH headers (one extending the head, one switching forks)
			hb := nextBsc()
			n4 := ethChild(n3, 5, "n4", "4")
			n5 := ethChild(n2, 5, "n5", "5")
			for _, c := range []*world.Chain{a, re} {
				_ = c
			}
			verdict := func(c *world.Chain) string {
				cctx := c.ReadCtx(w.Now.Add(10 * world.Step))
				k := c.App.TIBCKeeper.ClientKeeper
				out := fmt.Sprint(k.UpdateClient(cctx, bscName, hb) == nil)
				out += fmt.Sprint(k.UpdateClient(cctx, ethName, toRepoHeader(n4)) == nil)
				out += fmt.Sprint(k.UpdateClient(cctx, ethName, toRepoHeader(n5)) == nil)
				d := world.HashKVs(world.DumpStore(cctx, "tibc", c.App.GetKey("tibc"), []byte("clients/")), nil)
				return fmt.Sprintf("%s %x", out, d[:8])
			}
			if v1, v2 := verdict(a), verdict(re); v1 != v2 {
				addF([]string{"evm-clients", "next headers"}, "reimported-chain-reacts-differently:evm-client-updates", fmt.Sprintf("original %s, re-imported %s", v1, v2))
			}
		}
		ethtypes.SealCheck = true
	}
	sort.Slice(findings, func(i, j int) bool { return findings[i].Signature < findings[j].Signature })
	cov := map[string]any{
		"evm_client_reimports": evmReimports,
		"states":               states, "transitions": trans + continuations, "traces_validated_against_impl": reimports,
		"states_exported": statesChecked, "reimports": reimports, "continuation_actions_compared": continuations,
		"scenarios": scen, "samples": samples, "exhaustive": exhaustive,
		"bounds": fmt.Sprintf("every distinct state of: core3 with cleans, NFT transfers over three chains (incl. relay and error acks), core2 with counterparty heights passing 47 and 303 (0x2f in the big-endian height), up to depth %d; every chain of every state is exported and re-imported into a fresh application; stores tibc/NFT/MT/nft/mt compared byte for byte; every honest relayer action involving the re-imported chain executed on both worlds", depth),
	}
	return report.Finish("C16", tier, start, "model_checking", cov, []string{
		"export uses ExportAppStateAndValidators(false, nil, <all registered modules except evidence>) and import overlays the result on the default genesis, InitialHeight = exported height; the unfiltered export is probed separately in a sub-process",
		"differential oracle: the re-imported chain must hold byte-identical tibc, transfer, nft and mt stores and must give the same verdict and the same resulting protocol state (clients/ excluded there, heights differ by construction) for every enabled relayer action",
	}, findings)
}

func involves(ra relAction, chain string) bool {
	switch ra.kind {
	case "recv":
		return world.ProvingChainForRecv(ra.pkt, ra.at) == chain
	case "ack":
		return world.ProvingChainForAck(ra.pkt, ra.at) == chain
	case "recvclean":
		from := ra.clean.SourceChain
		if ra.clean.DestinationChain == ra.at && ra.clean.RelayChain != "" {
			from = ra.clean.RelayChain
		}
		return from == chain
	}
	return false
}

func roleOf(ra relAction, chain string) string {
	if ra.at == chain {
		return "receiving-chain-reimported"
	}
	return "proving-chain-reimported"
}

// HelperExportDefault is run in a sub-process by CheckC16.
func HelperExportDefault() {
	w := world.NewWorld(world.WorldOpts{Names: []string{A}, NoMesh: true})
	_, err := w.C(A).App.ExportAppStateAndValidators(false, nil, nil)
	if err != nil {
		fmt.Println("EXPORT-FAILED:", err)
		os.Exit(1)
	}
	fmt.Println("EXPORT-OK")
}

func famList(m map[string]bool) string {
	var l []string
	for k := range m {
		l = append(l, k)
	}
	sort.Strings(l)
	return "[" + strings.Join(l, ",") + "]"
}
