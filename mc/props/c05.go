package props

import (
	"fmt"
	"sort"
	"strings"
	"time"

	mttypes "mods.irisnet.org/modules/mt/types"

	mttransfer "github.com/bianjieai/tibc-go/modules/tibc/apps/mt_transfer/types"

	"verif/mc/world"
)

// MtScenario configures the MT user-action menu.
type MtScenario struct {
	MaxUserTx   int
	Supply      uint64
	Amounts     []uint64 // candidate amounts; those above balance+1 are dropped (one failing over-spend per state at most)
	Relays      bool
	Receivers   []int
	BadReceiver bool
	Burns       bool
	// SecondId: a second token id is minted in the same class (2 units, user 1)
	SecondId bool
	// MintOn: chains on which the class and its token(s) are issued natively (default: A only). The MT module derives
	// class and token ids from per-chain counters, so the natives of different chains carry identical ids.
	MintOn []string
}

// Actions enumerates MsgMtTransfer transactions for every user balance.
func (s MtScenario) Actions(m *PktModel, w *world.World, g Ghost) []UserAction {
	if totalSends(g) >= s.MaxUserTx {
		return nil
	}
	var out []UserAction
	for _, c := range w.Chains {
		c := c
		st := MtHoldings(c)
		var keys []string
		for k := range st.Bal {
			keys = append(keys, k)
		}
		sort.Strings(keys)
		for _, k := range keys {
			bal := st.Bal[k]
			parts := strings.Split(k, "|")
			class, id := parts[0], parts[1]
			owner, ok := isUser(c, parts[2])
			if !ok || bal == 0 {
				continue
			}
			seen := map[uint64]bool{}
			var amts []uint64
			overspend := false
			for _, a := range s.Amounts {
				if a == 0 || seen[a] {
					continue
				}
				if a > bal {
					if overspend || a != bal+1 && a < ^uint64(0) {
						continue
					}
					overspend = true
				}
				seen[a] = true
				amts = append(amts, a)
			}
			if !seen[bal] {
				amts = append(amts, bal)
			}
			for _, d := range w.Chains {
				if d == c {
					continue
				}
				relays := []string{""}
				if s.Relays {
					if t := thirdChain(w, c.Name, d.Name); t != "" {
						relays = append(relays, t)
					}
				}
				for _, relay := range relays {
					var recvs []string
					for _, ri := range s.Receivers {
						recvs = append(recvs, d.Accounts[ri].Addr.String())
					}
					if s.BadReceiver {
						recvs = append(recvs, "not-an-address")
					}
					for ri, recv := range recvs {
						for _, a := range amts {
							d, relay, recv, a := d, relay, recv, a
							label := fmt.Sprintf("mtxfer:%s:%s/%s:u%d>%s/%s:r%d:amt%d", c.Name, class[:8], id[:8], owner.Num, d.Name, relay, ri, a)
							out = append(out, UserAction{Label: label, On: c.Name, Run: func(w *world.World) (*world.Chain, world.TxRes) {
								cc := w.C(c.Name)
								msg := mttransfer.NewMsgMtTransfer(class, id, owner.Addr.String(), recv, d.Name, relay, "", a)
								return cc, w.Tx(cc, owner, msg)
							}})
						}
					}
				}
			}
		}
	}
	return out
}

// mt3 builds the MT scenario: a native denom on A with one MT of the given supply, split between A's users 1 and 2.
func mt3(name string, props map[string]bool, sc MtScenario, names []string) *PktModel {
	m := &PktModel{Name: name, Names: names, Props: props,
		UserActions: sc.Actions, Observe: MtObserve,
		StepCheck:  Steps(CoreStepCheck, MtStep),
		StateCheck: MtInvariant,
	}
	m.Setup = func(w *world.World) {
		for _, n := range names {
			setRules(w, n, []string{"*,*,*"})
		}
		mintOn := sc.MintOn
		if len(mintOn) == 0 {
			mintOn = []string{A}
		}
		for _, cn := range mintOn {
			a := w.C(cn)
			u1, u2 := User(a, 1), User(a, 2)
			if r := w.Tx(a, u1, mttypes.NewMsgIssueDenom("gold", "", u1.Addr.String())); !r.OK() {
				panic(r.Log)
			}
			var denom string
			for d := range mtDenoms(a) {
				denom = d
			}
			// mint: supply-1 to user1 and 1 to user2 of the same MT id
			if r := w.Tx(a, u1, mttypes.NewMsgMintMT("", denom, sc.Supply-1, "data", u1.Addr.String(), u1.Addr.String())); !r.OK() {
				panic(r.Log)
			}
			var mtid string
			for k := range MtHoldings(a).Supply {
				mtid = strings.Split(k, "|")[1]
			}
			if r := w.Tx(a, u1, mttypes.NewMsgMintMT(mtid, denom, 1, "", u1.Addr.String(), u2.Addr.String())); !r.OK() {
				panic(r.Log)
			}
			if sc.SecondId {
				if r := w.Tx(a, u1, mttypes.NewMsgMintMT("", denom, 2, "second", u1.Addr.String(), u1.Addr.String())); !r.OK() {
					panic(r.Log)
				}
			}
		}
	}
	m.InitGhost = func(w *world.World, g *Ghost) {
		mintOn := sc.MintOn
		if len(mintOn) == 0 {
			mintOn = []string{A}
		}
		for _, cn := range mintOn {
			st := MtHoldings(w.C(cn))
			for ci, sup := range st.Supply {
				id := "native:" + cn + ":" + ci
				g.Extra[mtNode(cn, ci)] = id
				g.Extra["mtminted|"+id] = fmt.Sprint(sup)
			}
		}
	}
	return m
}

func mtDenoms(c *world.Chain) map[string]bool {
	out := map[string]bool{}
	for _, d := range c.App.MtKeeper.GetDenoms(c.ReadCtx(c.LastTime())) {
		out[d.Id] = true
	}
	return out
}

// CheckC05: multi-token conservation.
func modelsC05(tier string) ([]*PktModel, []int) {
	props := map[string]bool{"C05": true}
	max := ^uint64(0)
	models := []*PktModel{
		mt3("mt2-small", props, MtScenario{MaxUserTx: 3, Supply: 3, Amounts: []uint64{1, 2, 3, 4}, Receivers: []int{1}, BadReceiver: true}, []string{A, B}),
		mt3("mt3-two-hops-error-acks", props, MtScenario{MaxUserTx: 2, Supply: 3, Amounts: []uint64{2, 3}, Receivers: []int{1}, BadReceiver: true}, []string{A, B, C}),
		mt3("mt3-max-supply", props, MtScenario{MaxUserTx: 3, Supply: max, Amounts: []uint64{1, 1 << 63, max - 1, max}, Receivers: []int{1}}, []string{A, B, C}),
	}
	// two token ids in one class; and the same class / token ids native to A and to the relay chain B
	models = append(models,
		mt3("mt2-two-ids-one-class", props, MtScenario{MaxUserTx: 3, Supply: 2, Amounts: []uint64{1}, Receivers: []int{1}, SecondId: true}, []string{A, B}),
		mt3("mt3-same-ids-native-on-relay-chain", props, MtScenario{MaxUserTx: 2, Supply: 2, Amounts: []uint64{2}, Receivers: []int{1}, Relays: true, MintOn: []string{A, B}}, []string{A, B, C}))
	depth := []int{8, 7, 7, 8, 7}
	if tier == "thorough" {
		// the quick scenarios explored deeper, then two scenarios with a wider alphabet (second receiver, relay routes,
		// more amounts) whose branching factor of 20-40 bounds them to a few steps
		models = append(models,
			mt3("mt3-wide", props, MtScenario{MaxUserTx: 4, Supply: 3, Amounts: []uint64{1, 2, 3, 4}, Receivers: []int{1, 2}, BadReceiver: true, Relays: true}, []string{A, B, C}),
			mt3("mt3-max-supply-wide", props, MtScenario{MaxUserTx: 4, Supply: max, Amounts: []uint64{1, 2, 1 << 63, max - 1, max}, Receivers: []int{1}, BadReceiver: true}, []string{A, B, C}),
		)
		depth = []int{12, 10, 12, 10, 9, 4, 4}
	}
	return models, depth
}

func CheckC05(tier string) int {
	models, depth := modelsC05(tier)

	return RunPkt("C05", tier, models, depth, tierBudget(tier, 100*time.Second, 25*time.Minute), append([]string{
		"all sums in math/big; class identities and parent links are learnt from history (which escrow a delivery drew on), not from class paths",
		"invariants in every state: user-held units of an identity over all chains + units in flight = minted natively; module (escrow) balance of a class on a chain = everything that exists of its voucher classes one hop further + units in flight on those edges; every stored MT supply figure = sum of its balances",
		"the MT module generates denom and MT ids itself (sha256 hex of a counter), so path-shaped native class names are not expressible through its messages and are not in the alphabet",
	}, commonAssumptions...))
}

func init() {
	PktRegistry["C05"] = func(tier string) []*PktModel { m, _ := modelsC05(tier); return m }
}
