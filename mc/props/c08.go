package props

import (
	"bytes"
	"crypto/sha256"
	"fmt"
	"os"
	"sort"
	"sync"
	"time"

	storetypes "cosmossdk.io/store/types"
	abci "github.com/cometbft/cometbft/abci/types"
	sdk "github.com/cosmos/cosmos-sdk/types"
	ics23 "github.com/cosmos/ics23/go"
	"github.com/ethereum/go-ethereum/common"

	clienttypes "github.com/bianjieai/tibc-go/modules/tibc/core/02-client/types"
	commitmenttypes "github.com/bianjieai/tibc-go/modules/tibc/core/23-commitment/types"
	host "github.com/bianjieai/tibc-go/modules/tibc/core/24-host"
	"github.com/bianjieai/tibc-go/modules/tibc/core/exported"
	ibctm "github.com/bianjieai/tibc-go/modules/tibc/light-clients/07-tendermint/types"
	bsctypes "github.com/bianjieai/tibc-go/modules/tibc/light-clients/08-bsc/types"
	ethtypes "github.com/bianjieai/tibc-go/modules/tibc/light-clients/09-eth/types"

	"verif/mc/explore"
	"verif/mc/report"
	"verif/mc/world"
)

// c08key is one protocol key of the universe.
type c08key struct {
	kind     string // commitment | ack | clean
	src, dst string
	seq      uint64
}

func (k c08key) path() string {
	switch k.kind {
	case "commitment":
		return host.PacketCommitmentPath(k.src, k.dst, k.seq)
	case "ack":
		return host.PacketAcknowledgementPath(k.src, k.dst, k.seq)
	}
	return host.CleanPacketCommitmentPath(k.src, k.dst)
}

func (k c08key) String() string { return fmt.Sprintf("%s(%s>%s#%d)", k.kind, k.src, k.dst, k.seq) }

// verifyFn calls the client's verification method for the key's kind; value is the claimed value (for clean: 8-byte sequence).
func verifyAny(cs exported.ClientState, ctx sdk.Context, store storetypes.KVStore, cdc interface{}, k c08key, height exported.Height, proof []byte, value []byte, w *world.Chain) error {
	c := w.App.AppCodec()
	switch k.kind {
	case "commitment":
		return cs.VerifyPacketCommitment(ctx, store, c, height, proof, k.src, k.dst, k.seq, value)
	case "ack":
		return cs.VerifyPacketAcknowledgement(ctx, store, c, height, proof, k.src, k.dst, k.seq, value)
	}
	return cs.VerifyPacketCleanCommitment(ctx, store, c, height, proof, k.src, k.dst, sdk.BigEndianToUint64(value))
}

func hash32(s string) []byte { h := sha256.Sum256([]byte(s)); return h[:] }

// leadingZeroHash finds a preimage whose sha256 starts with a zero byte.
func leadingZeroHash() []byte {
	for i := 0; ; i++ {
		h := hash32(fmt.Sprintf("lz-%d", i))
		if h[0] == 0 {
			return h
		}
	}
}

type c08stats struct {
	mu                                   sync.Mutex
	evals, accepted, rejected            int
	byClient                             map[string]int
	samples                              []any
	findings                             []explore.Finding
	completenessChecked, soundnessJudged int
}

func (s *c08stats) add(sig, detail string, sample any) {
	s.mu.Lock()
	defer s.mu.Unlock()
	for _, f := range s.findings {
		if f.Signature == sig {
			return
		}
	}
	s.findings = append(s.findings, explore.Finding{Property: "C08", Signature: sig, Detail: detail, Path: []string{fmt.Sprint(sample)}})
}

// CheckC08: state-proof verification is sound and complete for every client type.
func CheckC08(tier string) int {
	start := time.Now()
	st := &c08stats{byClient: map[string]int{}}
	c08Thorough = true // the wide universe costs 4 s: both tiers use it
	c08Tendermint(tier, st)
	c08MPT(tier, st, "ETH")
	c08MPT(tier, st, "BSC")
	cov := map[string]any{
		"evaluations": st.evals, "distinct_nontrivial": st.accepted,
		"rule":   "every combination of the stated alphabets is generated once; non-trivial = verifications that succeed (each is checked for soundness); all others are checked to fail unless the completeness rule demands success",
		"states": len(st.byClient) + 1, "transitions": st.evals, "traces_validated_against_impl": st.evals,
		"accepted": st.accepted, "rejected": st.rejected, "per_client": st.byClient, "samples": st.samples, "exhaustive": true,
		"completeness_obligations": st.completenessChecked,
		"bounds":                   "key universe {commitment, ack, clean point} x {(A,B,1),(A,B,2),(A,C,1),(a+chain.x_-,b[c]#<d>+e,1)} (both tiers since 2026-09-23: + sequences 10, 11, 2^32, 2^64-1, a channel (A,D) whose clean point is above 2^40 and the reverse channel (B,A)); stored subsets at two recorded heights; claimed value {stored, another stored value, one byte off, empty, clean sequence +-1, leading-zero word}; proof {canonical, of another key, of the same key at the other root, op dropped, ops reordered, absence proof, truncated, garbage; MPT: wrong address, other account, wrong storage hash, two storage proofs, altered slot key}; proof height {recorded, unrecorded, latest+1}; delay {0, d} on both sides of the threshold",
	}
	fmt.Fprintf(os.Stderr, "[C08] evaluations=%d accepted=%d rejected=%d per-client=%v (%.1fs)\n", st.evals, st.accepted, st.rejected, st.byClient, time.Since(start).Seconds())
	return report.Finish("C08", tier, start, "model_checking", cov, []string{
		"Tendermint: the counterparty is a real SimApp whose tibc IAVL store is filled through the packet keeper's setters and committed; proofs come from ABCI Query(prove=true); the verifying client is created and updated through the client keeper",
		"ETH/BSC: the counterparty state is a real go-ethereum secure account trie holding a contract account with a secure storage trie (slot = keccak(path || pad32(104)), trie key keccak(slot), value RLP of the trimmed word); proofs come from trie.Prove in eth_getProof layout; consensus states with that root are installed in the client store directly",
		"soundness oracle: success implies the claimed value is stored under the protocol key in the state of the recorded root, height <= latest, delay elapsed; completeness oracle: the canonical proof of a stored value at a recorded height with elapsed delay succeeds; mutated proofs are judged by soundness only",
	}, st.findings)
}

// ---------------------------------------------------------------------------------------------

// c08Thorough widens the key universe: two-digit and maximal sequences, a third channel with a clean point above 2^40.
var c08Thorough bool

func c08universe() []c08key {
	var u []c08key
	// the last channel uses every special character the identifier alphabet permits (. _ + - # [ ] < >)
	chans := [][2]string{{A, B}, {A, C}, {"a+chain.x_-", "b[c]#<d>+e"}}
	if c08Thorough {
		// (B, A): the reverse direction of the first channel - a proof for (A,B,n) must not verify (B,A,n)
		chans = append(chans, [2]string{A, D}, [2]string{B, A})
	}
	for _, kind := range []string{"commitment", "ack", "clean"} {
		for _, ch := range chans {
			seqs := []uint64{1, 2}
			if c08Thorough {
				seqs = append(seqs, 10, 11, 1<<32, 1<<64-1)
			}
			if ch[1] != B {
				seqs = []uint64{1}
			}
			if kind == "clean" {
				seqs = []uint64{0}
			}
			for _, s := range seqs {
				u = append(u, c08key{kind, ch[0], ch[1], s})
			}
		}
	}
	return u
}

// stored value of key k in generation gen (nil = absent). Generation 1 holds a subset, generation 2 holds more and changes one value.
func c08stored(k c08key, gen int) []byte {
	switch k.kind {
	case "commitment", "ack":
		if k.dst == C && gen == 1 {
			return nil
		}
		if k.kind == "ack" && k.seq == 2 {
			return nil // never stored
		}
		if k.kind == "commitment" && k.seq == 2 && gen == 2 {
			return leadingZeroHash()
		}
		return hash32(fmt.Sprintf("%s-gen%d", k.String(), gen))
	default: // clean point (sequence as 8-byte big endian)
		if k.dst == C {
			return nil
		}
		if k.dst == D {
			return sdk.Uint64ToBigEndian(uint64(1<<40 + 255 + gen))
		}
		return sdk.Uint64ToBigEndian(uint64(4 + gen))
	}
}

func claimedValues(u []c08key, k c08key, gen int) map[string][]byte {
	out := map[string][]byte{}
	if v := c08stored(k, gen); v != nil {
		out["stored"] = v
		off := append([]byte{}, v...)
		off[len(off)-1] ^= 1
		out["one-byte-off"] = off
		if k.kind != "clean" {
			out["stored-with-leading-zero-byte-added"] = append([]byte{0}, v...)
			out["stored-truncated"] = v[1:]
		} else {
			out["sequence+1"] = sdk.Uint64ToBigEndian(sdk.BigEndianToUint64(v) + 1)
			out["sequence-1"] = sdk.Uint64ToBigEndian(sdk.BigEndianToUint64(v) - 1)
		}
	}
	if v := c08stored(k, 3-gen); v != nil {
		out["value-at-the-other-root"] = v
	}
	for _, o := range u {
		if o != k && o.kind == k.kind {
			if v := c08stored(o, gen); v != nil {
				out["value-of-another-key"] = v
				break
			}
		}
	}
	if k.kind != "clean" {
		out["empty"] = []byte{}
		out["zero-word"] = make([]byte, 32)
	} else {
		out["sequence-0"] = sdk.Uint64ToBigEndian(0)
	}
	return out
}

// ---------------------------------------------------------------------------------------------
// Tendermint

func c08Tendermint(tier string, st *c08stats) {
	w := world.NewWorld(world.WorldOpts{Names: []string{A, B}})
	a, b := w.C(A), w.C(B)
	u := c08universe()
	pk := b.App.TIBCKeeper.PacketKeeper
	fill := func(gen int) int64 {
		ctx := b.Ctx()
		for _, k := range u {
			v := c08stored(k, gen)
			if v == nil {
				continue
			}
			switch k.kind {
			case "commitment":
				pk.SetPacketCommitment(ctx, k.src, k.dst, k.seq, v)
			case "ack":
				pk.SetPacketAcknowledgement(ctx, k.src, k.dst, k.seq, v)
			default:
				pk.SetCleanPacketCommitment(ctx, k.src, k.dst, sdk.BigEndianToUint64(v))
			}
		}
		b.CommitEmpty(w.Tick())
		b.CommitEmpty(w.Tick())
		if r := w.UpdateClient(a, b); !r.OK() {
			panic(r.Log)
		}
		return b.Height()
	}
	h1 := fill(1)
	t1 := w.Now // block time at which a's client processed h1
	w.Now = w.Now.Add(100 * time.Second)
	h2 := fill(2)
	t2 := w.Now
	heights := map[string]int64{"gen1": h1, "gen2": h2, "unrecorded": h1 + 1, "latest+1": h2 + 1}
	gens := map[string]int{"gen1": 1, "gen2": 2}
	query := func(k c08key, h int64) []*ics23.CommitmentProof {
		res, err := b.App.Query(nil, &abci.RequestQuery{Path: "store/tibc/key", Height: h - 1, Data: []byte(k.path()), Prove: true})
		if err != nil || res.ProofOps == nil {
			panic(fmt.Sprint("query failed ", err))
		}
		mp, err := commitmenttypes.ConvertProofs(res.ProofOps)
		if err != nil {
			panic(err)
		}
		return mp.Proofs
	}
	marshal := func(ps []*ics23.CommitmentProof) []byte {
		mp := commitmenttypes.MerkleProof{Proofs: ps}
		bz, _ := a.App.AppCodec().Marshal(&mp)
		return bz
	}
	delays := []uint64{0, uint64(30 * time.Second)}
	for _, delay := range delays {
		for hname, h := range heights {
			gen := gens[hname]
			valGen := gen
			if valGen == 0 {
				valGen = 2
			}
			processed := t1
			if hname == "gen2" {
				processed = t2
			}
			nows := map[string]time.Time{"late": t2.Add(time.Hour)}
			if delay > 0 && gen != 0 {
				nows["delay-1ns"] = processed.Add(time.Duration(delay) - time.Nanosecond)
				nows["delay-exact"] = processed.Add(time.Duration(delay))
				nows["delay+1ns"] = processed.Add(time.Duration(delay) + time.Nanosecond)
			}
			for nname, now := range nows {
				ctx := a.ReadCtx(now)
				ck := a.App.TIBCKeeper.ClientKeeper
				csI, _ := ck.GetClientState(ctx, B)
				csv := *(csI.(*ibctm.ClientState))
				csv.TimeDelay = delay
				cs := &csv
				store := ck.ClientStore(ctx, B)
				// a consensus state recorded above the latest height (same root as gen 2, processed long ago)
				if cons, ok := ck.GetClientConsensusState(ctx, B, clienttypes.NewHeight(0, uint64(h2))); ok {
					ck.SetClientConsensusState(ctx, B, clienttypes.NewHeight(0, uint64(h2+1)), cons)
					ibctm.SetProcessedTime(store, clienttypes.NewHeight(0, uint64(h2+1)), uint64(t1.UnixNano()))
				}
				for _, k := range u {
					type pv struct {
						name      string
						bz        []byte
						canonical bool
					}
					var proofs []pv
					qh := h
					if gen == 0 {
						qh = h2
					}
					canon := query(k, qh)
					proofs = append(proofs, pv{"canonical", marshal(canon), gen != 0})
					for _, o := range u {
						if o != k && o.kind == k.kind {
							proofs = append(proofs, pv{"proof-of-another-key", marshal(query(o, qh)), false})
							break
						}
					}
					otherH := h1
					if qh == h1 {
						otherH = h2
					}
					proofs = append(proofs, pv{"same-key-other-root", marshal(query(k, otherH)), false})
					if len(canon) == 2 {
						proofs = append(proofs,
							pv{"outer-op-dropped", marshal(canon[:1]), false},
							pv{"inner-op-dropped", marshal(canon[1:]), false},
							pv{"ops-reordered", marshal([]*ics23.CommitmentProof{canon[1], canon[0]}), false})
					}
					cbz := marshal(canon)
					proofs = append(proofs, pv{"truncated", cbz[:len(cbz)/2], false}, pv{"garbage", []byte("garbage"), false}, pv{"nil", nil, false})
					for vname, val := range claimedValues(u, k, valGen) {
						for _, p := range proofs {
							err := verifyAny(cs, ctx, store, nil, k, clienttypes.NewHeight(0, uint64(h)), p.bz, val, a)
							st.mu.Lock()
							st.evals++
							st.byClient["tendermint"]++
							if err == nil {
								st.accepted++
							} else {
								st.rejected++
							}
							if len(st.samples) < 3 {
								st.samples = append(st.samples, fmt.Sprintf("tendermint %s height=%s value=%s proof=%s delay=%d now=%s", k, hname, vname, p.name, delay, nname))
							}
							st.mu.Unlock()
							stored := gen != 0 && c08stored(k, gen) != nil && bytes.Equal(c08stored(k, gen), val)
							delayOK := !now.Before(processed.Add(time.Duration(delay)))
							boundary := nname == "delay-exact"
							if err == nil {
								switch {
								case gen == 0:
									st.add("tendermint:verified-at-unrecorded-or-future-height", fmt.Sprintf("%s height=%s", k, hname), k)
								case !stored:
									st.add("tendermint:verified-value-that-is-not-stored:"+vname+":"+p.name, fmt.Sprintf("%s height=%s", k, hname), k)
								case !delayOK:
									st.add("tendermint:verified-before-delay-elapsed", fmt.Sprintf("%s now=%s", k, nname), k)
								}
							} else if stored && p.canonical && delayOK && !boundary {
								st.mu.Lock()
								st.completenessChecked++
								st.mu.Unlock()
								st.add("tendermint:canonical-proof-rejected:"+k.kind, fmt.Sprintf("%s height=%s now=%s: %v", k, hname, nname, err), k)
							} else if stored && p.canonical && delayOK {
								st.mu.Lock()
								st.completenessChecked++
								st.mu.Unlock()
							}
						}
					}
				}
			}
		}
	}
}

// ---------------------------------------------------------------------------------------------
// ETH / BSC

func c08MPT(tier string, st *c08stats, kind string) {
	w := world.NewWorld(world.WorldOpts{Names: []string{A}, NoMesh: true})
	a := w.C(A)
	u := c08universe()
	mk := func(gen int) *EthWorld {
		kv := map[string][]byte{}
		for _, k := range u {
			if v := c08stored(k, gen); v != nil {
				kv[k.path()] = v
			}
		}
		return NewEthWorld(kv)
	}
	worlds := map[int]*EthWorld{1: mk(1), 2: mk(2)}
	const h1, h2 = 100, 120
	name := "ethchaineee"
	latestOptions := []uint64{h2, h2 + 5} // latest == proof height (no confirmations) and latest = h2+5
	for _, latest := range latestOptions {
		for _, blockDelay := range []uint64{0, 5, 6} {
			ctx := a.ReadCtx(w.Now.Add(time.Hour))
			ck := a.App.TIBCKeeper.ClientKeeper
			var cs exported.ClientState
			contract := worlds[1].Contract.Bytes()
			needDelay := blockDelay
			switch kind {
			case "ETH":
				cs = &ethtypes.ClientState{Header: ethtypes.Header{Height: clienttypes.NewHeight(0, latest)}, ChainId: 1, ContractAddress: contract,
					TrustingPeriod: 1 << 40, BlockDelay: blockDelay}
				for g, ew := range worlds {
					hh := uint64(h1)
					if g == 2 {
						hh = h2
					}
					ck.SetClientConsensusState(ctx, name, clienttypes.NewHeight(0, hh), &ethtypes.ConsensusState{Timestamp: 1, Number: clienttypes.NewHeight(0, hh), Root: ew.Root.Bytes()})
				}
			case "BSC":
				// BSC derives the delay from the validator count: 2n/3+1 blocks
				nvals := map[uint64]int{0: 0, 5: 6, 6: 8}[blockDelay]
				var vals [][]byte
				for i := 0; i < nvals; i++ {
					vals = append(vals, common.BytesToAddress([]byte{byte(i + 1)}).Bytes())
				}
				needDelay = uint64(2*nvals/3 + 1)
				cs = &bsctypes.ClientState{Header: bsctypes.Header{Height: clienttypes.NewHeight(0, latest)}, ChainId: 56, Epoch: 200, BlockInteval: 3,
					Validators: vals, ContractAddress: contract, TrustingPeriod: 1 << 40}
				for g, ew := range worlds {
					hh := uint64(h1)
					if g == 2 {
						hh = h2
					}
					ck.SetClientConsensusState(ctx, name, clienttypes.NewHeight(0, hh), &bsctypes.ConsensusState{Timestamp: 1, Number: clienttypes.NewHeight(0, hh), Root: ew.Root.Bytes()})
				}
			}
			ck.SetClientState(ctx, name, cs)
			// a consensus state recorded ABOVE the client's latest height (gen-2 root): there only the height bound can
			// reject the canonical proof
			above := clienttypes.NewHeight(0, latest+1)
			if kind == "ETH" {
				ck.SetClientConsensusState(ctx, name, above, &ethtypes.ConsensusState{Timestamp: 1, Number: above, Root: worlds[2].Root.Bytes()})
			} else {
				ck.SetClientConsensusState(ctx, name, above, &bsctypes.ConsensusState{Timestamp: 1, Number: above, Root: worlds[2].Root.Bytes()})
			}
			store := ck.ClientStore(ctx, name)
			heights := map[string]uint64{"gen1": h1, "gen2": h2, "unrecorded": h1 + 1, "latest+1": latest + 1}
			gens := map[string]int{"gen1": 1, "gen2": 2}
			var hnames []string
			for n := range heights {
				hnames = append(hnames, n)
			}
			sort.Strings(hnames)
			for _, hname := range hnames {
				h := heights[hname]
				gen := gens[hname]
				pg := gen
				if pg == 0 {
					pg = 2
				}
				ew := worlds[pg]
				for _, k := range u {
					canon := ew.Proof([]byte(k.path()))
					type pv struct {
						name      string
						bz        []byte
						canonical bool
					}
					proofs := []pv{{"canonical", canon.JSON(), gen != 0}}
					for _, o := range u {
						if o != k && o.kind == k.kind {
							proofs = append(proofs, pv{"proof-of-another-key", ew.Proof([]byte(o.path())).JSON(), false})
							break
						}
					}
					proofs = append(proofs, pv{"same-key-other-root", worlds[3-pg].Proof([]byte(k.path())).JSON(), false})
					m := canon
					m.Address = ew.Other.Hex()
					proofs = append(proofs, pv{"wrong-address-field", m.JSON(), false})
					proofs = append(proofs, pv{"other-account", ew.OtherAccountProof([]byte(k.path())).JSON(), false})
					m = canon
					m.StorageHash = common.BytesToHash(hash32("x")).Hex()
					proofs = append(proofs, pv{"wrong-storage-hash", m.JSON(), false})
					// a genuine account proof combined with the storage hash and storage proof of ANOTHER storage trie (the
					// other generation's), where the slot holds a different value
					{
						o := worlds[3-pg].Proof([]byte(k.path()))
						m = canon
						m.StorageHash = o.StorageHash
						m.StorageProof = o.StorageProof
						proofs = append(proofs, pv{"storage-proof-from-another-trie", m.JSON(), false})
					}
					m = canon
					m.StorageProof = append(append([]EthStorageRes{}, canon.StorageProof...), canon.StorageProof...)
					proofs = append(proofs, pv{"two-storage-proofs", m.JSON(), false})
					m = canon
					m.StorageProof = nil
					proofs = append(proofs, pv{"no-storage-proof", m.JSON(), false})
					m = canon
					sp := canon.StorageProof[0]
					sp.Key = "0x" + fmt.Sprintf("%x", hash32("other-slot"))
					m.StorageProof = []EthStorageRes{sp}
					proofs = append(proofs, pv{"altered-slot-key", m.JSON(), false})
					m = canon
					sp = canon.StorageProof[0]
					if len(sp.Proof) > 1 {
						sp.Proof = sp.Proof[:len(sp.Proof)-1]
						m.StorageProof = []EthStorageRes{sp}
						proofs = append(proofs, pv{"storage-proof-leaf-dropped", m.JSON(), false})
					}
					m = canon
					if len(m.AccountProof) > 1 {
						m.AccountProof = m.AccountProof[1:]
						proofs = append(proofs, pv{"account-proof-root-dropped", m.JSON(), false})
					}
					proofs = append(proofs, pv{"garbage", []byte("garbage"), false}, pv{"truncated", canon.JSON()[:40], false})
					for vname, val := range claimedValues(u, k, pg) {
						for _, p := range proofs {
							var err error
							func() {
								defer func() {
									if r := recover(); r != nil {
										err = fmt.Errorf("panic: %v", r)
										st.add(kind+":verification-panics:"+p.name, fmt.Sprint(r), k)
									}
								}()
								err = verifyAny(cs, ctx, store, nil, k, clienttypes.NewHeight(0, h), p.bz, val, a)
							}()
							st.mu.Lock()
							st.evals++
							st.byClient[kind]++
							if err == nil {
								st.accepted++
							} else {
								st.rejected++
							}
							if st.byClient[kind] <= 2 {
								st.samples = append(st.samples, fmt.Sprintf("%s %s height=%s value=%s proof=%s latest=%d blockDelay=%d", kind, k, hname, vname, p.name, latest, needDelay))
							}
							st.mu.Unlock()
							stored := gen != 0 && c08stored(k, gen) != nil && bytes.Equal(c08stored(k, gen), val)
							delayOK := h <= latest && latest-h >= needDelay
							if err == nil {
								switch {
								case gen == 0:
									st.add(kind+":verified-at-unrecorded-or-future-height", fmt.Sprintf("%s height=%s", k, hname), k)
								case !stored:
									st.add(kind+":verified-value-that-is-not-stored:"+vname+":"+p.name, fmt.Sprintf("%s height=%s", k, hname), k)
								case !delayOK:
									st.add(kind+":verified-before-delay-elapsed", fmt.Sprintf("%s latest=%d height=%d delay=%d", k, latest, h, needDelay), k)
								}
							} else if stored && p.canonical && delayOK {
								st.mu.Lock()
								st.completenessChecked++
								st.mu.Unlock()
								st.add(kind+":canonical-proof-rejected:"+k.kind, fmt.Sprintf("%s height=%s latest=%d delay=%d: %q", k, hname, latest, needDelay, fmt.Sprint(err)), k)
							}
						}
					}
				}
			}
		}
	}
}
