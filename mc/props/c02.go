package props

import (
	"strings"
	"time"

	"verif/mc/explore"
)

func withCleans(m *PktModel, max uint64) *PktModel {
	m.Cleans = true
	m.MaxCleanSeq = max
	return m
}

// CheckC02: exactly-once delivery; fresh committed packets are accepted.
func modelsC02(tier string) ([]*PktModel, []int) {
	props := map[string]bool{"C02": true}
	models := []*PktModel{core2("core2", props, "try"), core3("core3", props, "try"), withCleans(core2("core2-cleans", props, "try"), 3), core3RulesOpenedLater("core3-rules-opened-later", props, "try")}
	depth := []int{7, 6, 8, 8}
	if tier == "thorough" {
		depth = []int{10, 9, 11, 10}
		models = append(models, withCleans(core3("core3-cleans", props, "try"), 2))
		depth = append(depth, 9)
	}
	return models, depth
}

func CheckC02(tier string) int {
	models, depth := modelsC02(tier)

	// the long-channel script of C10 (12 packets, cleaned in one or two stages, every original receive message replayed
	// verbatim afterwards): a second acceptance of a delivered packet is a violation of this property
	var extra []explore.Finding
	for _, f := range append(longChannelCleans(tier), crossChannelCleans()...) {
		if strings.HasPrefix(f.Signature, "recv-") || f.Property == "C02" {
			f.Property = "C02"
			extra = append(extra, f)
		}
	}
	return RunPktExtra("C02", tier, models, depth, tierBudget(tier, 90*time.Second, 15*time.Minute), append([]string{
		"safety: ghost counters of successful MsgRecvPacket per (chain, source, destination, sequence) and of destination application callbacks never exceed 1 on any path; every previously delivered or cleaned packet is re-submitted with a fresh, current proof in every later state and must be rejected",
		"liveness sentence: every honest relay transition the model enables (previous hop holds the commitment, no receipt, sequence above the clean point) must return code 0",
	}, commonAssumptions...), extra)
}

// CheckC03: acknowledgements authentic, once, never overwritten.
func modelsC03(tier string) ([]*PktModel, []int) {
	props := map[string]bool{"C03": true}
	models := []*PktModel{core2("core2", props, "try"), core3("core3", props, "try"), core3RulesOpenedLater("core3-rules-opened-later", props, "try")}
	depth := []int{7, 6, 8}
	if tier == "thorough" {
		depth = []int{10, 9, 10}
		core4 := core3("core4", props, "try")
		core4.Names = []string{A, B, C, D}
		models = append(models, withCleans(core2("core2-cleans", props, "try"), 3), withCleans(core3("core3-cleans", props, "try"), 2), core4)
		depth = append(depth, 10, 8, 7)
	}
	return models, depth
}

func CheckC03(tier string) int {
	models, depth := modelsC03(tier)

	return RunPkt("C03", tier, models, depth, tierBudget(tier, 90*time.Second, 15*time.Minute), append([]string{
		"an acknowledgement message is legitimate iff the receiving chain still holds sha256(data) at the packet's commitment key and the chain the packet's fields select as next hop stores sha256(ack bytes) at the packet's ack key, proven at its newest height; everything else in the probe menu must be rejected",
		"step oracles: at most one successful acknowledgement per packet and chain, commitment deleted on success, recorded ack hash equals sha256 of the bytes the application returned (write_acknowledgement event), ack keys never change value",
	}, commonAssumptions...))
}

// CheckC13: no redirection of port / relay chain.
func modelsC13(tier string) ([]*PktModel, []int) {
	props := map[string]bool{"C13": true}
	core4 := core3("core4", props, "try")
	core4.Names = []string{A, B, C, D}
	nft := nft3("nft3", props, NftScenario{MaxUserTx: 2, Receivers: []int{1}, BadReceiver: true, Relays: true}, "try")
	models := []*PktModel{core2("core2", props, "try"), core3("core3", props, "try"), nft, core4}
	depth := []int{6, 6, 5, 5}
	if tier == "thorough" {
		depth = []int{10, 10, 8, 8}
	}
	return models, depth
}

func CheckC13(tier string) int {
	models, depth := modelsC13(tier)

	return RunPkt("C13", tier, models, depth, tierBudget(tier, 100*time.Second, 15*time.Minute), append([]string{
		"for every packet the source announced (mock-port packets and NFT transfers, direct and relayed, on 2, 3 and 4 chains), every receive and acknowledgement message that presents it with another port or an added/removed/replaced relay chain, with the proof the altered packet's own previous hop produces, must be rejected in every reachable state on every chain",
	}, commonAssumptions...))
}

func init() {
	PktRegistry["C02"] = func(tier string) []*PktModel { m, _ := modelsC02(tier); return m }
}

func init() {
	PktRegistry["C03"] = func(tier string) []*PktModel { m, _ := modelsC03(tier); return m }
}

func init() {
	PktRegistry["C13"] = func(tier string) []*PktModel { m, _ := modelsC13(tier); return m }
}
