package props

import "time"

var commonAssumptions = []string{
	"trusted: Go runtime, cosmos-sdk BaseApp/store (transaction atomicity, IAVL proofs), cometbft signature/commit verification",
	"every transition and probe runs the real handlers of a simapp.SimApp (BaseApp -> Msg service -> keepers -> light client -> ICS-23 proof); no separate model",
	"state merging: states are identified by the tibc (minus clients/), NFT, MT, nft, mt stores of every chain plus the ghost; clients/ is excluded because the honest relay step always updates the verifying client to the proving chain's newest header first (delay period 0, simulated time far below the trusting period)",
	"coverage is for the listed scenarios, alphabets and depth bounds only",
}

// CheckC01: inbound packets are authentic.
func modelsC01(tier string) ([]*PktModel, []int) {
	props := map[string]bool{"C01": true}
	models := []*PktModel{core2("core2", props, "try"), core3("core3", props, "try"), core3UnknownDestination("core3-unknown-destination", props, "try")}
	depth := []int{7, 6, 6}
	if tier == "thorough" {
		depth = []int{10, 9, 8}
		core4 := core3("core4", props, "try")
		core4.Names = []string{A, B, C, D}
		models = append(models, core2("core2-tx-probes", props, "tx"), withCleans(core2("core2-cleans", props, "try"), 3), withCleans(core3("core3-cleans", props, "try"), 2), core4)
		depth = append(depth, 6, 10, 8, 7)
	}
	return models, depth
}

func CheckC01(tier string) int {
	models, depth := modelsC01(tier)

	return RunPkt("C01", tier, models, depth, tierBudget(tier, 80*time.Second, 20*time.Minute), append([]string{
		"probe verdicts come from an independent oracle: a receive message is legitimate iff the chain the packet's own fields select as previous hop holds sha256(data) under commitments/src/dst/sequences/seq and the proof is that chain's proof of that key at its newest height (known to the verifying client)",
		"port and relay-chain alterations are judged by C13, not here",
	}, commonAssumptions...))
}

func init() {
	PktRegistry["C01"] = func(tier string) []*PktModel { m, _ := modelsC01(tier); return m }
}
