package props

import (
	"bytes"
	"encoding/json"
	"fmt"
	"math/big"
	"os"
	"sort"
	"strings"
	"sync"
	"time"

	sdk "github.com/cosmos/cosmos-sdk/types"
	"github.com/ethereum/go-ethereum/common"
	"github.com/ethereum/go-ethereum/consensus/ethash"
	"github.com/ethereum/go-ethereum/consensus/misc"
	gethtypes "github.com/ethereum/go-ethereum/core/types"
	"github.com/ethereum/go-ethereum/crypto"
	"github.com/ethereum/go-ethereum/params"

	clienttypes "github.com/bianjieai/tibc-go/modules/tibc/core/02-client/types"
	ethtypes "github.com/bianjieai/tibc-go/modules/tibc/light-clients/09-eth/types"

	"verif/mc/explore"
	"verif/mc/report"
	"verif/mc/world"
)

const ethName = "ethchaineee"

// londonConfig activates every fork up to London at block 0 (difficulty rule EIP-3554, base fee rule EIP-1559).
var londonConfig = &params.ChainConfig{ChainID: big.NewInt(1), HomesteadBlock: big.NewInt(0), EIP150Block: big.NewInt(0), EIP155Block: big.NewInt(0),
	EIP158Block: big.NewInt(0), ByzantiumBlock: big.NewInt(0), ConstantinopleBlock: big.NewInt(0), PetersburgBlock: big.NewInt(0), IstanbulBlock: big.NewInt(0),
	MuirGlacierBlock: big.NewInt(0), BerlinBlock: big.NewInt(0), LondonBlock: big.NewInt(0)}

const ethT0 = 1_650_000_000

func ethGenesis() gethtypes.Header {
	return gethtypes.Header{ParentHash: common.Hash{}, UncleHash: gethtypes.EmptyUncleHash, Root: crypto.Keccak256Hash([]byte("genesis-root")),
		Difficulty: big.NewInt(10_000_000), Number: big.NewInt(100), GasLimit: 30_000_000, GasUsed: 15_000_000, Time: ethT0, BaseFee: big.NewInt(1_000_000_000)}
}

// ethChild builds a valid child using go-ethereum's own difficulty and base-fee calculators as the independent reference.
func ethChild(parent gethtypes.Header, dt uint64, tag string, root string) gethtypes.Header {
	t := parent.Time + dt
	h := gethtypes.Header{ParentHash: parent.Hash(), UncleHash: gethtypes.EmptyUncleHash, Root: crypto.Keccak256Hash([]byte("root-" + root)),
		Difficulty: ethash.CalcDifficulty(londonConfig, t, &parent), Number: new(big.Int).Add(parent.Number, big.NewInt(1)),
		GasLimit: parent.GasLimit, GasUsed: parent.GasLimit / 2, Time: t, Extra: []byte(tag), BaseFee: misc.CalcBaseFee(londonConfig, &parent)}
	return h
}

func toRepoHeader(h gethtypes.Header) *ethtypes.Header {
	return &ethtypes.Header{ParentHash: h.ParentHash[:], UncleHash: h.UncleHash[:], Coinbase: h.Coinbase[:], Root: h.Root[:], TxHash: h.TxHash[:],
		ReceiptHash: h.ReceiptHash[:], Bloom: h.Bloom[:], Difficulty: h.Difficulty.String(), Height: clienttypes.NewHeight(0, h.Number.Uint64()),
		GasLimit: h.GasLimit, GasUsed: h.GasUsed, Time: h.Time, Extra: h.Extra, MixDigest: h.MixDigest[:], Nonce: h.Nonce.Uint64(), BaseFee: h.BaseFee.String()}
}

// ethTree is a header tree over the genesis: parent[i] is the index of node i's parent (-1 = genesis).
type ethTree struct {
	parent     []int
	sharedRoot bool // siblings carry the same state root
}

func (t ethTree) String() string {
	return fmt.Sprintf("parents=%v sharedRoot=%v", t.parent, t.sharedRoot)
}

func (t ethTree) depthOf(i int) int {
	d := 1
	for t.parent[i] >= 0 {
		i = t.parent[i]
		d++
	}
	return d
}

// enumerate all trees with up to maxNodes nodes, depth <= maxDepth, branching <= maxBranch (children attached in index order: canonical)
func ethTrees(maxNodes, maxDepth, maxBranch int) []ethTree {
	var out []ethTree
	var rec func(parent []int)
	rec = func(parent []int) {
		if len(parent) > 0 {
			out = append(out, ethTree{parent: append([]int{}, parent...)})
		}
		if len(parent) == maxNodes {
			return
		}
		lo := -1
		if len(parent) > 0 {
			lo = parent[len(parent)-1] // canonical: parents non-decreasing
		}
		for p := lo; p < len(parent); p++ {
			kids := 0
			for _, q := range parent {
				if q == p {
					kids++
				}
			}
			if kids >= maxBranch {
				continue
			}
			t := ethTree{parent: append(append([]int{}, parent...), p)}
			if t.depthOf(len(t.parent)-1) > maxDepth {
				continue
			}
			rec(t.parent)
		}
	}
	rec(nil)
	return out
}

func (t ethTree) headers() []gethtypes.Header {
	g := ethGenesis()
	hs := make([]gethtypes.Header, len(t.parent))
	for i, p := range t.parent {
		par := g
		if p >= 0 {
			par = hs[p]
		}
		root := fmt.Sprint(i)
		if t.sharedRoot {
			root = fmt.Sprintf("d%d", t.depthOf(i))
		}
		hs[i] = ethChild(par, 13+uint64(i%3), fmt.Sprintf("n%d", i), root)
	}
	return hs
}

func ethSetup(c *world.Chain, now time.Time) sdk.Context {
	ctx := c.ReadCtx(now)
	g := ethGenesis()
	gh := toRepoHeader(g)
	cs := &ethtypes.ClientState{Header: *gh, ChainId: 1, ContractAddress: make([]byte, 20), TrustingPeriod: 1 << 40}
	cons := &ethtypes.ConsensusState{Timestamp: g.Time, Number: gh.Height, Root: g.Root[:]}
	must(c.App.TIBCKeeper.ClientKeeper.CreateClient(ctx, ethName, cs, cons))
	return ctx
}

// CheckC18: ETH client accepts only valid children of known headers, keeps one chain.
func CheckC18(tier string) int {
	start := time.Now()
	maxNodes, maxDepth, maxBranch := 5, 4, 2
	if tier == "thorough" {
		maxNodes, maxDepth, maxBranch = 8, 5, 3
	}
	base := world.NewWorld(world.WorldOpts{Names: []string{A}, NoMesh: true})
	init := base.Freeze()
	ethtypes.SealCheck = false
	now := time.Unix(ethT0+1000, 0)
	var mu sync.Mutex
	var findings []explore.Finding
	addF := func(path []string, sig, detail string) {
		mu.Lock()
		defer mu.Unlock()
		for _, f := range findings {
			if f.Signature == sig {
				return
			}
		}
		findings = append(findings, explore.Finding{Property: "C18", Signature: sig, Detail: detail, Path: path})
	}
	var trees []ethTree
	for _, t := range ethTrees(maxNodes, maxDepth, maxBranch) {
		trees = append(trees, t)
		// the same shape with siblings sharing a state root, where there are siblings
		sib := false
		seen := map[int]int{}
		for _, p := range t.parent {
			seen[p]++
			if seen[p] > 1 {
				sib = true
			}
		}
		if sib {
			trees = append(trees, ethTree{parent: t.parent, sharedRoot: true})
		}
	}
	states, evals, accepts, rejects := 0, 0, 0, 0
	var samples []any
	var wg sync.WaitGroup
	jobs := make(chan ethTree, len(trees))
	for _, t := range trees {
		jobs <- t
	}
	close(jobs)
	for k := 0; k < workers(); k++ {
		wg.Add(1)
		go func(k int) {
			defer wg.Done()
			w := base
			if k > 0 {
				w = base.Shadow()
			}
			w.Mount(init)
			c := w.C(A)
			ck := c.App.TIBCKeeper.ClientKeeper
			for t := range jobs {
				hs := t.headers()
				n := len(hs)
				// explicit-state search over (submission sequences) with states merged by (stored set, head)
				type st struct {
					seq    []int
					stored uint32
					head   int // -1 genesis
				}
				seen := map[string]bool{"0|-1": true}
				frontier := []st{{head: -1}}
				ns, ne, na, nr := 0, 0, 0, 0
				for len(frontier) > 0 {
					var next []st
					for _, s := range frontier {
						ns++
						ctx := ethSetup(c, now)
						for _, i := range s.seq {
							if err := ck.UpdateClient(ctx, ethName, toRepoHeader(hs[i])); err != nil {
								panic(fmt.Sprintf("replay of accepted sequence %v failed at %d: %v", s.seq, i, err))
							}
						}
						for i := 0; i < n; i++ {
							parentStored := t.parent[i] < 0 || s.stored&(1<<uint(t.parent[i])) != 0
							isStored := s.stored&(1<<uint(i)) != 0
							want := parentStored && !isStored
							cctx, _ := ctx.CacheContext()
							err := ck.UpdateClient(cctx, ethName, toRepoHeader(hs[i]))
							ne++
							got := err == nil
							path := []string{t.String(), fmt.Sprintf("accepted so far %v (head n%d)", s.seq, s.head), fmt.Sprintf("submit n%d (parent n%d)", i, t.parent[i])}
							if got != want {
								kind := "invalid-submission-accepted"
								if want {
									kind = "valid-child-of-stored-header-refused"
								}
								why := "sibling-or-fork"
								switch {
								case isStored:
									why = "duplicate"
								case !parentStored:
									why = "unknown-parent"
								case t.parent[i] == s.head:
									why = "child-of-head"
								case t.sharedRoot:
									why = "fork-with-shared-state-roots"
								}
								addF(path, kind+":"+why, fmt.Sprintf("accepted=%v reference=%v err=%v", got, want, err))
								if got {
									na++
								} else {
									nr++
								}
								continue
							}
							if !got {
								nr++
								continue
							}
							na++
							// one chain: for every height up to the new head the exposed consensus state is the head's ancestor's
							anc := map[uint64]gethtypes.Header{100: ethGenesis()}
							for j := i; j >= 0; j = t.parent[j] {
								anc[hs[j].Number.Uint64()] = hs[j]
							}
							for h, a := range anc {
								consI, ok := ck.GetClientConsensusState(cctx, ethName, clienttypes.NewHeight(0, h))
								if !ok {
									addF(path, "consensus-state-missing-on-main-chain", fmt.Sprintf("height %d", h))
									continue
								}
								cons := consI.(*ethtypes.ConsensusState)
								if !bytes.Equal(cons.Root, a.Root[:]) || cons.Timestamp != a.Time {
									why := "distinct-roots"
									if t.sharedRoot {
										why = "shared-roots"
									}
									addF(path, "exposed-consensus-state-not-on-the-heads-chain:"+why, fmt.Sprintf("height %d exposes root %x time %d, head's ancestor has %x time %d", h, cons.Root, cons.Timestamp, a.Root[:], a.Time))
								}
							}
							csI, _ := ck.GetClientState(cctx, ethName)
							if csI.GetLatestHeight().GetRevisionHeight() != hs[i].Number.Uint64() || csI.(*ethtypes.ClientState).Header.Hash() != hs[i].Hash() {
								addF(path, "latest-header-not-the-accepted-header", "")
							}
							nst := st{seq: append(append([]int{}, s.seq...), i), stored: s.stored | 1<<uint(i), head: i}
							key := fmt.Sprintf("%d|%d", nst.stored, nst.head)
							if !seen[key] {
								seen[key] = true
								next = append(next, nst)
							}
						}
					}
					frontier = next
				}
				mu.Lock()
				states += ns
				evals += ne
				accepts += na
				rejects += nr
				if len(samples) < 4 {
					samples = append(samples, t.String())
				}
				mu.Unlock()
			}
		}(k)
	}
	wg.Wait()

	// ---- field perturbations of a valid child of the head, on a chain G -> n0 -> n1
	{
		w := base
		w.Mount(init)
		c := w.C(A)
		ck := c.App.TIBCKeeper.ClientKeeper
		g := ethGenesis()
		n0 := ethChild(g, 13, "n0", "0")
		n1 := ethChild(n0, 14, "n1", "1")
		type pert struct {
			name string
			want bool
			mk   func() gethtypes.Header
		}
		nowU := uint64(now.Unix())
		withTime := func(t uint64) gethtypes.Header {
			h := ethChild(n1, 13, "n2", "2")
			h.Time = t
			h.Difficulty = ethash.CalcDifficulty(londonConfig, t, &n1)
			return h
		}
		ps := []pert{
			{"valid-child", true, func() gethtypes.Header { return ethChild(n1, 13, "n2", "2") }},
			{"time=parent", false, func() gethtypes.Header { return withTime(n1.Time) }},
			{"time=parent+1", true, func() gethtypes.Header { return withTime(n1.Time + 1) }},
			{"time=parent-1", false, func() gethtypes.Header { return withTime(n1.Time - 1) }},
			{"time=now+15", true, func() gethtypes.Header { return withTime(nowU + 15) }},
			{"time=parent+950 (difficulty adjustment clamped at -99)", true, func() gethtypes.Header { return withTime(n1.Time + 950) }},
			{"valid-child-after-a-clamped-header", true, func() gethtypes.Header { return ethChild(n1, 13, "n2", "2") }},
			{"time=now+16", false, func() gethtypes.Header { return withTime(nowU + 16) }},
			{"gas-limit-at-upper-bound", false, func() gethtypes.Header {
				h := ethChild(n1, 13, "n2", "2")
				h.GasLimit = n1.GasLimit + n1.GasLimit/1024
				return h
			}},
			{"gas-limit-just-inside-upper-bound", true, func() gethtypes.Header {
				h := ethChild(n1, 13, "n2", "2")
				h.GasLimit = n1.GasLimit + n1.GasLimit/1024 - 1
				return h
			}},
			{"gas-limit-at-lower-bound", false, func() gethtypes.Header {
				h := ethChild(n1, 13, "n2", "2")
				h.GasLimit = n1.GasLimit - n1.GasLimit/1024
				return h
			}},
			{"base-fee+1", false, func() gethtypes.Header {
				h := ethChild(n1, 13, "n2", "2")
				h.BaseFee = new(big.Int).Add(h.BaseFee, big.NewInt(1))
				return h
			}},
			{"base-fee-1", false, func() gethtypes.Header {
				h := ethChild(n1, 13, "n2", "2")
				h.BaseFee = new(big.Int).Sub(h.BaseFee, big.NewInt(1))
				return h
			}},
			{"difficulty+1", false, func() gethtypes.Header {
				h := ethChild(n1, 13, "n2", "2")
				h.Difficulty = new(big.Int).Add(h.Difficulty, big.NewInt(1))
				return h
			}},
			{"difficulty-1", false, func() gethtypes.Header {
				h := ethChild(n1, 13, "n2", "2")
				h.Difficulty = new(big.Int).Sub(h.Difficulty, big.NewInt(1))
				return h
			}},
			{"unknown-parent", false, func() gethtypes.Header {
				h := ethChild(n1, 13, "n2", "2")
				h.ParentHash = crypto.Keccak256Hash([]byte("nobody"))
				return h
			}},
			{"number+1-same-parent-hash", false, func() gethtypes.Header {
				h := ethChild(n1, 13, "n2", "2")
				h.Number = big.NewInt(h.Number.Int64() + 1)
				return h
			}},
			{"duplicate-of-head", false, func() gethtypes.Header { return n1 }},
			{"duplicate-of-ancestor", false, func() gethtypes.Header { return n0 }},
			{"gas-used-above-limit", false, func() gethtypes.Header { h := ethChild(n1, 13, "n2", "2"); h.GasUsed = h.GasLimit + 1; return h }},
			{"extra-data-33-bytes", false, func() gethtypes.Header { h := ethChild(n1, 13, "n2", "2"); h.Extra = make([]byte, 33); return h }},
			{"parent-gas-used-above-target-child-base-fee-follows", true, func() gethtypes.Header { return ethChild(n1, 13, "n2", "2") }},
		}
		ctx := ethSetup(c, now)
		must(ck.UpdateClient(ctx, ethName, toRepoHeader(n0)))
		must(ck.UpdateClient(ctx, ethName, toRepoHeader(n1)))
		before := world.DumpStore(ctx, "tibc", c.App.GetKey("tibc"), []byte("clients/"+ethName+"/"))
		for _, p := range ps {
			h := p.mk()
			cctx, _ := ctx.CacheContext()
			err := ck.UpdateClient(cctx, ethName, toRepoHeader(h))
			evals++
			if (err == nil) != p.want {
				kind := "invalid-header-accepted"
				if p.want {
					kind = "valid-header-rejected"
				}
				addF([]string{"G>n0>n1", p.name}, kind+":"+p.name, fmt.Sprint(err))
			}
			if err == nil {
				accepts++
			} else {
				rejects++
			}
		}
		after := world.DumpStore(ctx, "tibc", c.App.GetKey("tibc"), []byte("clients/"+ethName+"/"))
		if world.HashKVs(before, nil) != world.HashKVs(after, nil) {
			addF([]string{"G>n0>n1"}, "probe-branch-leaked-into-base", "")
		}
	}

	// ---- EIP-1559 grid: trusted headers with every combination of base fee {7, 100, 10^9} wei, gas limit 30M and gas used
	// {0, 1, target-1, target, target+1, limit}; the child with the base fee go-ethereum's calculator prescribes must be
	// accepted, the children with that base fee +-1 refused (small base fees reach the one-wei floor of the increase and
	// the rounding of the decrease)
	feeGrid := 0
	{
		w := base
		c := w.C(A)
		ck := c.App.TIBCKeeper.ClientKeeper
		const limit = 30_000_000
		for _, bf := range []int64{7, 100, 1_000_000_000} {
			for _, used := range []uint64{0, 1, limit/2 - 1, limit / 2, limit/2 + 1, limit} {
				w.Mount(init)
				g := ethGenesis()
				g.BaseFee, g.GasUsed = big.NewInt(bf), used
				ctx := c.ReadCtx(now)
				gh := toRepoHeader(g)
				must(ck.CreateClient(ctx, ethName, &ethtypes.ClientState{Header: *gh, ChainId: 1, ContractAddress: make([]byte, 20), TrustingPeriod: 1 << 40},
					&ethtypes.ConsensusState{Timestamp: g.Time, Number: gh.Height, Root: g.Root[:]}))
				for _, d := range []int64{0, 1, -1} {
					h := ethChild(g, 13, "fee", "f")
					h.BaseFee = new(big.Int).Add(h.BaseFee, big.NewInt(d))
					if h.BaseFee.Sign() < 0 {
						continue
					}
					cctx, _ := ctx.CacheContext()
					err := ck.UpdateClient(cctx, ethName, toRepoHeader(h))
					evals++
					feeGrid++
					if err == nil {
						accepts++
					} else {
						rejects++
					}
					name := fmt.Sprintf("parent base fee %d gas used %d of %d: child base fee %s (prescribed%+d)", bf, used, limit, h.BaseFee, d)
					if d == 0 && err != nil {
						addF([]string{"G(base fee, gas used)", name}, "valid-header-rejected:base-fee-grid", fmt.Sprint(err))
					}
					if d != 0 && err == nil {
						addF([]string{"G(base fee, gas used)", name}, "invalid-header-accepted:base-fee-grid", name)
					}
				}
			}
		}
	}

	// ---- hook off: recorded mainnet headers and seal corruptions
	ethtypes.SealCheck = true
	sealEvals := 0
	{
		w := base
		w.Mount(init)
		c := w.C(A)
		ck := c.App.TIBCKeeper.ClientKeeper
		bz, err := os.ReadFile("/repo/modules/tibc/light-clients/09-eth/types/testdata/update_headers.json")
		if err != nil {
			addF(nil, "harness-cannot-read-recorded-headers", err.Error())
		} else {
			var hs []*ethtypes.EthHeader
			must(json.Unmarshal(bz, &hs))
			first := hs[0].ToHeader()
			ctx := c.ReadCtx(time.Unix(int64(hs[0].Time)+600, 0))
			cs := &ethtypes.ClientState{Header: first, ChainId: 1, ContractAddress: make([]byte, 20), TrustingPeriod: 1 << 40}
			must(ck.CreateClient(ctx, "ethmainnet", cs, &ethtypes.ConsensusState{Timestamp: first.Time, Number: first.Height, Root: first.Root}))
			n := 1
			if tier == "thorough" {
				n = 3
			}
			for i := 1; i <= n && i < len(hs); i++ {
				good := hs[i].ToHeader()
				for _, v := range []string{"nonce+1", "mix-digest-flipped", "recorded"} {
					h := good
					switch v {
					case "nonce+1":
						h.Nonce++
					case "mix-digest-flipped":
						h.MixDigest = append([]byte{}, good.MixDigest...)
						h.MixDigest[0] ^= 1
					}
					tgt := ctx
					if v != "recorded" {
						tgt, _ = ctx.CacheContext()
					}
					err := ck.UpdateClient(tgt, "ethmainnet", &h)
					sealEvals++
					if v == "recorded" && err != nil {
						addF([]string{"mainnet", fmt.Sprint(good.Height)}, "recorded-mainnet-header-rejected", err.Error())
					}
					if v != "recorded" && err == nil {
						addF([]string{"mainnet", fmt.Sprint(good.Height), v}, "header-with-invalid-seal-accepted:"+v, "")
					}
				}
			}
		}
	}
	sort.Slice(findings, func(i, j int) bool { return findings[i].Signature < findings[j].Signature })
	cov := map[string]any{
		"states": states, "transitions": evals + sealEvals, "traces_validated_against_impl": evals + sealEvals,
		"evaluations": evals + sealEvals, "accepted": accepts, "rejected": rejects, "trees": len(trees), "seal_verifications": sealEvals,
		"samples": samples, "exhaustive": true,
		"bounds": fmt.Sprintf("all header trees over a genesis with <= %d nodes, depth <= %d, branching <= %d, each also with siblings sharing a state root; for each tree every submission order (explicit-state search over (stored set, head), every node submitted in every state, stored or not, parent stored or not); 20 single-field perturbations of a valid child; seal: recorded mainnet headers with nonce and mix-digest corruptions with the hook off", maxNodes, maxDepth, maxBranch),
	}
	fmt.Fprintf(os.Stderr, "[C18] trees=%d states=%d evaluations=%d accepted=%d rejected=%d seal=%d (%.1fs)\n", len(trees), states, evals, accepts, rejects, sealEvals, time.Since(start).Seconds())
	return report.Finish("C18", tier, start, "model_checking", cov, []string{
		"synthetic headers are built with go-ethereum's own ethash.CalcDifficulty (London rules) and misc.CalcBaseFee as independent references; the verif hook skips only the ethash seal computation for them",
		"header-tree reference: a submission is accepted iff its parent is stored and it is not stored itself (all tree nodes are otherwise valid children); after every accepted update the consensus state exposed at every height up to the new head must be the (time, root) of the head's ancestor at that height",
		"the seal check is exercised with the hook off on recorded mainnet headers (valid) and on their nonce / mix-digest corruptions (invalid)",
	}, findings)
}

var _ = strings.TrimSpace
