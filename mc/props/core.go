package props

import (
	"bytes"
	"encoding/hex"
	"encoding/json"
	"fmt"
	"os"
	"runtime"
	"strings"
	"time"

	abci "github.com/cometbft/cometbft/abci/types"

	packettypes "github.com/bianjieai/tibc-go/modules/tibc/core/04-packet/types"

	"verif/mc/explore"
	"verif/mc/report"
	"verif/mc/world"
)

// MockSend is a keeper-level send on the mock port.
type MockSend struct {
	Label           string
	Src, Dst, Relay string
	Port            string
	Data            string
	Max             int
}

func sendEvent(p packettypes.Packet) abci.Event {
	return abci.Event{Type: packettypes.EventTypeSendPacket, Attributes: []abci.EventAttribute{
		{Key: packettypes.AttributeKeyData, Value: string(p.Data)},
		{Key: packettypes.AttributeKeySequence, Value: fmt.Sprint(p.Sequence)},
		{Key: packettypes.AttributeKeyPort, Value: p.Port},
		{Key: packettypes.AttributeKeySrcChain, Value: p.SourceChain},
		{Key: packettypes.AttributeKeyDstChain, Value: p.DestinationChain},
		{Key: packettypes.AttributeKeyRelayChain, Value: p.RelayChain},
	}}
}

// MockSendActions turns MockSend specs into user actions.
func MockSendActions(specs []MockSend) func(m *PktModel, w *world.World, g Ghost) []UserAction {
	return func(m *PktModel, w *world.World, g Ghost) []UserAction {
		var out []UserAction
		for _, s := range specs {
			s := s
			max := s.Max
			if max == 0 {
				max = 1
			}
			if g.Sends["send:"+s.Label] >= max {
				continue
			}
			out = append(out, UserAction{Label: "send:" + s.Label, On: s.Src, Run: func(w *world.World) (*world.Chain, world.TxRes) {
				c := w.C(s.Src)
				port := s.Port
				if port == "" {
					port = "tibcmock"
				}
				seq := c.NextSeqSend(s.Src, s.Dst)
				p := packettypes.NewPacket([]byte(fmt.Sprintf("%s-%d", s.Data, seq)), seq, s.Src, s.Dst, s.Relay, port)
				if err := w.SendMock(c, p); err != nil {
					return c, world.TxRes{Code: 1, Log: err.Error()}
				}
				return c, world.TxRes{Events: []abci.Event{sendEvent(p)}}
			}})
		}
		return out
	}
}

// CoreStepCheck holds the transition oracles of C01, C02, C03, C11 for relayer steps.
func CoreStepCheck(m *PktModel, w *world.World, ev *StepEvent) []explore.Finding {
	var fs []explore.Finding
	add := func(prop, sig, detail string) {
		if m.Props[prop] {
			fs = append(fs, explore.Finding{Property: prop, Signature: sig, Detail: detail})
		}
	}
	// a commitment is dropped only by the acknowledgement of exactly that packet (C03, first sentence)
	if m.Props["C03"] && ev.Before != nil && ev.After != nil {
		after := map[string]bool{}
		for _, kv := range ev.After {
			if kv.Store == "tibc" {
				after[string(kv.K)] = true
			}
		}
		for _, kv := range ev.Before {
			k := string(kv.K)
			if kv.Store != "tibc" || !strings.HasPrefix(k, "commitments/") || after[k] {
				continue
			}
			if !(ev.Kind == "ack" && k == fmt.Sprintf("commitments/%s/%s/sequences/%d", ev.Pkt.SourceChain, ev.Pkt.DestinationChain, ev.Pkt.Sequence)) {
				add("C03", "commitment-dropped-without-its-acknowledgement", k+" by "+ev.Label)
			}
		}
	}
	p := ev.Pkt
	switch ev.Kind {
	case "recv":
		at := ev.Chain
		id := pid(p)
		if ev.Err != nil || !ev.Res.OK() {
			// C02, second sentence: a committed, undelivered, uncleaned packet relayed with a current proof must be accepted
			add("C02", "fresh-packet-refused", fmt.Sprintf("honest relay of %s to %s failed: %v %s", id, at.Name, ev.Err, ev.Res.Log))
			return fs
		}
		prev := w.C(world.ProvingChainForRecv(p, at.Name))
		if !bytes.Equal(prev.Commitment(p.SourceChain, p.DestinationChain, p.Sequence), sha(p.Data)) {
			add("C01", "recv-accepted-without-commitment:honest-step", "previous hop holds no matching commitment")
		}
		if _, ok := ev.GBefore.find(p.SourceChain, p.DestinationChain, p.Sequence); !ok {
			add("C01", "recv-accepted-unannounced-packet", id)
		}
		if ev.GAfter.Recv[id+"@"+at.Name] > 1 {
			add("C02", "packet-received-twice", fmt.Sprintf("%s received %d times on %s", id, ev.GAfter.Recv[id+"@"+at.Name], at.Name))
		}
		if ev.GAfter.AppRecv[id] > 1 {
			add("C02", "application-callback-twice", id)
		}
		if !at.HasReceipt(p.SourceChain, p.DestinationChain, p.Sequence) {
			add("C01", "recv-success-without-receipt", id)
		}
		if p.DestinationChain == at.Name {
			h, ok := at.AckHash(p.SourceChain, p.DestinationChain, p.Sequence)
			ackHex, seen := ev.GAfter.AckBytes[id+"@"+at.Name]
			ack, _ := hex.DecodeString(ackHex)
			switch {
			case !ok:
				add("C03", "no-ack-recorded-for-delivered-packet", id)
			case !seen || len(ack) == 0:
				add("C03", "empty-or-unannounced-ack", id)
			case !bytes.Equal(h, sha(ack)):
				add("C03", "recorded-ack-differs-from-app-ack", id)
			}
		}
	case "ack":
		at := ev.Chain
		id := pid(p)
		if ev.Err != nil || !ev.Res.OK() {
			if p.RelayChain == at.Name {
				kind := "success"
				if isErrorAck(ev.Ack) {
					kind = "error"
				}
				add("C11", "ack-refused-on-relay-chain:"+kind, fmt.Sprintf("honest relay of %s's ack to %s failed: %v %s", id, at.Name, ev.Err, ev.Res.Log))
			} else {
				add("C03", "honest-ack-refused-on-source", fmt.Sprintf("%s at %s: %v %s", id, at.Name, ev.Err, ev.Res.Log))
			}
			return fs
		}
		// basis: at held the commitment before; next hop holds the ack hash
		held := false
		for _, kv := range ev.Before {
			if kv.Store == "tibc" && string(kv.K) == fmt.Sprintf("commitments/%s/%s/sequences/%d", p.SourceChain, p.DestinationChain, p.Sequence) &&
				bytes.Equal(kv.V, sha(p.Data)) {
				held = true
			}
		}
		if !held {
			add("C03", "ack-accepted-without-basis:no-commitment-held", id)
		}
		next := w.C(world.ProvingChainForAck(p, at.Name))
		if h, ok := next.AckHash(p.SourceChain, p.DestinationChain, p.Sequence); !ok || !bytes.Equal(h, sha(ev.Ack)) {
			add("C03", "ack-accepted-without-basis:next-hop-has-no-such-ack", id)
		}
		if ev.GAfter.AckOK[id+"@"+at.Name] > 1 {
			add("C03", "ack-processed-twice:honest-step", id)
		}
		if at.Commitment(p.SourceChain, p.DestinationChain, p.Sequence) != nil {
			add("C03", "commitment-survives-ack", id)
		}
		if p.RelayChain == at.Name {
			// C11: the ack recorded on the relay chain is the one recorded on the destination
			hr, ok := at.AckHash(p.SourceChain, p.DestinationChain, p.Sequence)
			hd, _ := next.AckHash(p.SourceChain, p.DestinationChain, p.Sequence)
			if !ok || !bytes.Equal(hr, hd) {
				add("C11", "ack-changed-on-relay-chain", id)
			}
		}
	}
	// C03: an acknowledgement, once written, is never overwritten (deletion by clean is allowed)
	if ev.Before != nil && ev.After != nil {
		am := map[string][]byte{}
		for _, kv := range ev.After {
			if kv.Store == "tibc" && strings.HasPrefix(string(kv.K), "acks/") {
				am[string(kv.K)] = kv.V
			}
		}
		for _, kv := range ev.Before {
			if kv.Store == "tibc" && strings.HasPrefix(string(kv.K), "acks/") {
				if v, ok := am[string(kv.K)]; ok && !bytes.Equal(v, kv.V) {
					add("C03", "ack-overwritten", string(kv.K))
				}
			}
		}
	}
	return fs
}

func isErrorAck(bz []byte) bool {
	var a packettypes.Acknowledgement
	if err := a.Unmarshal(bz); err != nil {
		return false
	}
	_, ok := a.Response.(*packettypes.Acknowledgement_Error)
	return ok
}

// ---------------------------------------------------------------------------------------------
// Runner shared by the explorer-based checks

// Tier parameters.
type Tier struct {
	Name     string
	Depth    int
	Budget   time.Duration
	MaxState int
}

func workers() int {
	n := runtime.NumCPU()
	if n > 16 {
		n = 16
	}
	if n < 1 {
		n = 1
	}
	return n
}

// RunPkt explores scenarios and reports for property prop.
func RunPkt(prop, tier string, models []*PktModel, depth []int, budget time.Duration, assumptions []string) int {
	return RunPktExtra(prop, tier, models, depth, budget, assumptions, nil)
}

// ExtraCoverage lets a check add coverage facts of its scripted parts to the evidence.
var ExtraCoverage = map[string]any{}

// RunPktExtra is RunPkt with findings produced by additional scripted comparisons.
func RunPktExtra(prop, tier string, models []*PktModel, depth []int, budget time.Duration, assumptions []string, extra []explore.Finding) int {
	start := time.Now()
	all := append([]explore.Finding{}, extra...)
	cov := map[string]any{}
	states, trans := 0, 0
	exhaustive := true
	var samples []any
	scen := []map[string]any{}
	outcomes := map[string]int{}
	counters := map[string]int{}
	selfTests := 0
	end := start.Add(budget)
	for i, m := range models {
		// time a scenario does not use is passed on to the scenarios after it
		per := time.Until(end) / time.Duration(len(models)-i)
		cfg := explore.Config{Workers: workers(), MaxDepth: depth[i], Deadline: time.Now().Add(per), MaxStates: 120000} // the state cap bounds memory (~100 KB of copied B-tree nodes per state)
		r := explore.Run(m, cfg)
		for _, f := range r.Findings {
			if f.Property == prop {
				f.Detail = "[scenario " + m.Name + "] " + f.Detail
				f.Path = append([]string{"scenario=" + m.Name}, f.Path...)
				all = append(all, f)
			}
		}
		// determinism self-test: the deepest path found is re-executed twice from the initial state, linearly, on
		// fresh instances; both executions must produce byte-identical blocks on every chain
		if dp := r.DeepestPaths(1); len(dp) == 1 && len(dp[0]) > 0 {
			f1, e1 := m.ReplayPath(dp[0])
			f2, e2 := m.ReplayPath(dp[0])
			if e1 != nil || e2 != nil || f1 != f2 {
				fmt.Fprintf(os.Stderr, "HARNESS-ERROR: replay of path %v is not reproducible: %v %v %s %s\n", dp[0], e1, e2, f1, f2)
				os.Exit(2)
			}
			selfTests++
		}
		states += r.States
		trans += r.Transitions
		if !r.Exhaustive {
			exhaustive = false
		}
		for k, v := range r.Outcomes {
			outcomes[k] += v
		}
		for k, v := range r.Counters {
			counters[k] += v
		}
		for _, p := range r.SamplePaths {
			samples = append(samples, map[string]any{"scenario": m.Name, "path": p})
		}
		scen = append(scen, map[string]any{"name": m.Name, "chains": m.Names, "states": r.States, "transitions": r.Transitions,
			"depth_bound": depth[i], "max_depth_completed": r.MaxDepthCompleted, "state_space_closed": r.Closed,
			"exhaustive_within_bound": r.Exhaustive, "cap_hit": r.CapHit, "level_sizes": r.LevelSizes, "probe_mode": m.ProbeMode})
		fmt.Fprintf(os.Stderr, "[%s] scenario %s: states=%d transitions=%d depth=%d closed=%v exhaustive=%v %s (%.1fs)\n",
			prop, m.Name, r.States, r.Transitions, r.MaxDepthCompleted, r.Closed, r.Exhaustive, r.CapHit, time.Since(start).Seconds())
	}
	cov["states"] = states
	cov["transitions"] = trans
	cov["traces_validated_against_impl"] = trans // every transition is executed on the real application
	cov["samples"] = samples
	cov["exhaustive"] = exhaustive
	cov["scenarios"] = scen
	cov["distinct_outcomes"] = len(outcomes)
	cov["outcomes"] = outcomes
	cov["probe_counters"] = counters
	cov["probes"] = counters["probes"]
	cov["determinism_self_tests"] = selfTests
	for k, v := range ExtraCoverage {
		cov[k] = v
	}
	return report.Finish(prop, tier, start, "model_checking", cov, assumptions, all)
}

// Steps chains step oracles.
func Steps(fs ...func(m *PktModel, w *world.World, ev *StepEvent) []explore.Finding) func(m *PktModel, w *world.World, ev *StepEvent) []explore.Finding {
	return func(m *PktModel, w *world.World, ev *StepEvent) []explore.Finding {
		var out []explore.Finding
		for _, f := range fs {
			out = append(out, f(m, w, ev)...)
		}
		return out
	}
}

// PktRegistry maps a property to the constructor of its scenario models (used by check and replay).
var PktRegistry = map[string]func(tier string) []*PktModel{}

// lastModels remembers the models of the running check so that replay can rebuild them by name.
func registerModels(prop string, models []*PktModel) {
	lastRegistered[prop] = models
}

var lastRegistered = map[string][]*PktModel{}

// ReplayFile re-executes a replay artefact linearly (no search) and prints every step.
func ReplayFile(path string) int {
	bz, err := os.ReadFile(path)
	if err != nil {
		fmt.Println(err)
		return 2
	}
	var art struct {
		Property  string   `json:"property"`
		Signature string   `json:"signature"`
		Detail    string   `json:"detail"`
		Tier      string   `json:"tier"`
		Path      []string `json:"path"`
		Probe     string   `json:"probe"`
	}
	if err := json.Unmarshal(bz, &art); err != nil {
		fmt.Println(err)
		return 2
	}
	fmt.Printf("property %s  signature %s\n  %s\n", art.Property, art.Signature, art.Detail)
	mk, ok := PktRegistry[art.Property]
	if !ok || len(art.Path) == 0 || !strings.HasPrefix(art.Path[0], "scenario=") {
		fmt.Printf("this artefact describes an input of an enumeration check, not an action path; the failing input is:\n  path: %v\n  probe: %s\nre-run ./check.sh %s %s to reproduce it\n", art.Path, art.Probe, art.Property, art.Tier)
		return 0
	}
	name := strings.TrimPrefix(art.Path[0], "scenario=")
	var m *PktModel
	for _, tier := range []string{art.Tier, "thorough", "quick"} {
		for _, c := range mk(tier) {
			if c.Name == name && m == nil {
				m = c
			}
		}
	}
	if m == nil {
		fmt.Println("scenario not found:", name)
		return 2
	}
	m.Props = map[string]bool{art.Property: true}
	wk := m.NewWorker().(*pktWorker)
	st, _ := m.Init(wk)
	cur := st.(PState)
	reproduced := false
	report := func(fs []explore.Finding) {
		for _, f := range fs {
			if f.Property == art.Property {
				fmt.Printf("    FINDING %s: %s %s\n", f.Signature, f.Detail, f.Probe)
				if f.Signature == art.Signature {
					reproduced = true
				}
			}
		}
	}
	for i, label := range art.Path[1:] {
		saved := m.ProbeMode
		m.ProbeMode = "" // probes only in the final state
		succs, sf, _ := m.Expand(wk, cur, i, true)
		m.ProbeMode = saved
		report(sf)
		found := false
		for _, s := range succs {
			if s.Label == label {
				fmt.Printf("  step %d: %s -> %s\n", i+1, label, s.Outcome)
				report(s.Findings)
				cur = s.State.(PState)
				found = true
				break
			}
		}
		if !found {
			fmt.Printf("  step %d: %s is not enabled here\n", i+1, label)
			return 2
		}
	}
	if m.ProbeMode == "" && art.Probe != "" {
		m.ProbeMode = "try"
	}
	_, sf, _ := m.Expand(wk, cur, len(art.Path)-1, false)
	report(sf)
	if reproduced {
		fmt.Println("REPRODUCED")
		return 1
	}
	fmt.Println("not reproduced on the current tree")
	return 0
}
