package props

import (
	ics23 "github.com/cosmos/ics23/go"

	commitmenttypes "github.com/bianjieai/tibc-go/modules/tibc/core/23-commitment/types"
)

// reshapeProof decodes an encoded MerkleProof, lets f rearrange its ICS-23 operations and encodes it again: proofs
// that still decode but have the wrong shape (an operation missing, doubled, or out of order).
func reshapeProof(f func([]*ics23.CommitmentProof) []*ics23.CommitmentProof) func([]byte) []byte {
	return func(b []byte) []byte {
		var mp commitmenttypes.MerkleProof
		if err := mp.Unmarshal(b); err != nil || len(mp.Proofs) == 0 {
			return append([]byte("undecodable:"), b...)
		}
		mp.Proofs = f(mp.Proofs)
		out, err := mp.Marshal()
		if err != nil {
			return []byte("unencodable")
		}
		return out
	}
}

type proofShape struct {
	name string
	f    func([]byte) []byte
}

// proofShapes: structural mutations of a genuine proof.
var proofShapes = []proofShape{
	{"proof-store-op-only", reshapeProof(func(p []*ics23.CommitmentProof) []*ics23.CommitmentProof { return p[:1] })},
	{"proof-root-op-only", reshapeProof(func(p []*ics23.CommitmentProof) []*ics23.CommitmentProof { return p[len(p)-1:] })},
	{"proof-ops-reordered", reshapeProof(func(p []*ics23.CommitmentProof) []*ics23.CommitmentProof {
		r := make([]*ics23.CommitmentProof, len(p))
		for i := range p {
			r[len(p)-1-i] = p[i]
		}
		return r
	})},
	{"proof-op-doubled", reshapeProof(func(p []*ics23.CommitmentProof) []*ics23.CommitmentProof {
		return append(append([]*ics23.CommitmentProof{}, p...), p[0])
	})},
}
