package props

import (
	"fmt"
	"os"
	"strings"
	"sync"
	"time"

	authtypes "github.com/cosmos/cosmos-sdk/x/auth/types"
	govtypes "github.com/cosmos/cosmos-sdk/x/gov/types"

	routingtypes "github.com/bianjieai/tibc-go/modules/tibc/core/26-routing/types"

	"verif/mc/explore"
	"verif/mc/report"
	"verif/mc/world"
)

const idChars = "abcdefghijklmnopqrstuvwxyzABCDEFGHIJKLMNOPQRSTUVWXYZ0123456789._+-#[]<>"

// refValidField: a valid identifier (1..64 characters of the permitted alphabet) or a single '*'.
func refValidField(f string) bool {
	if f == "*" {
		return true
	}
	if len(f) < 1 || len(f) > 64 {
		return false
	}
	for _, r := range f {
		if !strings.ContainsRune(idChars, r) {
			return false
		}
	}
	return true
}

func refValidRule(rule string) bool {
	fs := strings.Split(rule, ",")
	if len(fs) != 3 {
		return false
	}
	for _, f := range fs {
		if !refValidField(f) {
			return false
		}
	}
	return true
}

func allStrings(alphabet string, maxLen int, emit func(string)) {
	var rec func(prefix string)
	rec = func(prefix string) {
		emit(prefix)
		if len(prefix) == maxLen {
			return
		}
		for _, r := range alphabet {
			rec(prefix + string(r))
		}
	}
	rec("")
}

// CheckC12: routing rules mean exactly field-wise match with '*' wildcards.
func CheckC12(tier string) int {
	start := time.Now()
	base := world.NewWorld(world.WorldOpts{Names: []string{A}, NoMesh: true})
	init := base.Freeze()
	authority := authtypes.NewModuleAddress(govtypes.ModuleName).String()

	acceptLen, fieldLen := 5, 2
	if tier == "thorough" {
		acceptLen, fieldLen = 6, 3
	}
	var findings []explore.Finding
	var mu sync.Mutex
	addF := func(sig, detail string, sample any) {
		mu.Lock()
		defer mu.Unlock()
		for _, f := range findings {
			if f.Signature == sig {
				return
			}
		}
		findings = append(findings, explore.Finding{Property: "C12", Signature: sig, Detail: detail, Path: []string{fmt.Sprint(sample)}})
	}

	// ---- part 1: which rule strings are accepted (keeper and message path)
	var ruleStrs []string
	allStrings("ab.+[]*,(", acceptLen, func(s string) { ruleStrs = append(ruleStrs, s) })
	ruleStrs = append(ruleStrs, "a,b", "a,b,c,d", " a,b,c", "a,b,c ", "a,,c", ",,", "*,*,*", "**,a,b", "a*,b,c",
		strings.Repeat("a", 64)+",b,c", strings.Repeat("a", 65)+",b,c", "a,b,"+strings.Repeat("c", 65), "a/b,c,d", "a,b,c\n", "é,b,c")
	accepted, rejected := 0, 0
	chunks := workers()
	var wg sync.WaitGroup
	var cnt sync.Mutex
	evals := 0
	for k := 0; k < chunks; k++ {
		wg.Add(1)
		go func(k int) {
			defer wg.Done()
			w := base
			if k > 0 {
				w = base.Shadow()
			}
			w.Mount(init)
			c := w.C(A)
			acc, rej, n := 0, 0, 0
			for i := k; i < len(ruleStrs); i += chunks {
				rule := ruleStrs[i]
				want := refValidRule(rule)
				ctx := c.ReadCtx(c.LastTime())
				err := c.App.TIBCKeeper.RoutingKeeper.SetRoutingRules(ctx, []string{rule})
				got := err == nil
				n++
				if got {
					acc++
					if stored, _ := c.App.TIBCKeeper.RoutingKeeper.GetRoutingRules(ctx); len(stored) != 1 || stored[0] != rule {
						addF("accepted-rule-not-stored-verbatim", fmt.Sprintf("%q stored as %q", rule, stored), rule)
					}
				} else {
					rej++
				}
				if got != want {
					kind := "invalid-rule-accepted"
					if want {
						kind = "valid-rule-rejected"
					}
					addF(kind+":keeper", fmt.Sprintf("rule %q: accepted=%v, reference says %v", rule, got, want), rule)
				}
				// message path for a slice of the space (every 7th string and all hand-written ones)
				if i%7 == 0 || i >= len(ruleStrs)-15 {
					msg := &routingtypes.MsgSetRoutingRules{Title: "t", Description: "d", Rules: []string{rule}, Authority: authority}
					_, err := w.Try(c, msg)
					n++
					if (err == nil) != want {
						kind := "invalid-rule-accepted"
						if want {
							kind = "valid-rule-rejected"
						}
						addF(kind+":message", fmt.Sprintf("rule %q via MsgSetRoutingRules: err=%v, reference says valid=%v", rule, err, want), rule)
					}
				}
			}
			cnt.Lock()
			accepted += acc
			rejected += rej
			evals += n
			cnt.Unlock()
		}(k)
	}
	wg.Wait()

	// ---- part 2: matching. Rule fields and identifiers over the meta-character-rich alphabet.
	fieldAlpha := "ab.+[]-#<>_"
	var fields, idents []string
	allStrings(fieldAlpha, fieldLen, func(s string) {
		if s != "" {
			fields = append(fields, s)
			idents = append(idents, s)
		}
	})
	fields = append(fields, "*")
	authTrue, authFalse := 0, 0
	type job struct{ pos int }
	for k := 0; k < chunks; k++ {
		wg.Add(1)
		go func(k int) {
			defer wg.Done()
			w := base
			if k > 0 {
				w = base.Shadow()
			}
			w.Mount(init)
			c := w.C(A)
			rk := c.App.TIBCKeeper.RoutingKeeper
			at, af, n := 0, 0, 0
			for fi := k; fi < len(fields); fi += chunks {
				f := fields[fi]
				for pos := 0; pos < 3; pos++ {
					for _, other := range []string{"*", "zz"} {
						parts := []string{other, other, other}
						parts[pos] = f
						rule := strings.Join(parts, ",")
						ctx := c.ReadCtx(c.LastTime())
						if err := rk.SetRoutingRules(ctx, []string{rule}); err != nil {
							addF("valid-rule-rejected:keeper", fmt.Sprintf("rule %q: %v", rule, err), rule)
							continue
						}
						for _, id := range idents {
							trip := []string{"zz", "zz", "zz"}
							trip[pos] = id
							want := ruleAllows([]string{rule}, trip[0], trip[1], trip[2])
							got := rk.Authenticate(ctx, trip[0], trip[1], trip[2])
							n++
							if got {
								at++
							} else {
								af++
							}
							if got != want {
								kind := "triple-authorised-without-matching-rule"
								if want {
									kind = "matching-rule-does-not-authorise"
								}
								addF(kind+":"+metaClass(f), fmt.Sprintf("rule %q, triple %v: authorised=%v, reference says %v", rule, trip, got, want), rule)
							}
						}
					}
				}
			}
			cnt.Lock()
			authTrue += at
			authFalse += af
			evals += n
			cnt.Unlock()
		}(k)
	}
	wg.Wait()

	// ---- part 3: rule lists of length 0,1,2 over {a,b,*}^3 against all triples over {a,b,c}
	w := base
	w.Mount(init)
	c := w.C(A)
	rk := c.App.TIBCKeeper.RoutingKeeper
	var small []string
	for _, x := range []string{"a", "b", "*"} {
		for _, y := range []string{"a", "b", "*"} {
			for _, z := range []string{"a", "b", "*"} {
				small = append(small, x+","+y+","+z)
			}
		}
	}
	var lists [][]string
	lists = append(lists, []string{})
	for _, r := range small {
		lists = append(lists, []string{r})
	}
	for i, r := range small {
		for _, q := range small[i+1:] {
			lists = append(lists, []string{r, q})
		}
	}
	for _, l := range lists {
		ctx := c.ReadCtx(c.LastTime())
		if err := rk.SetRoutingRules(ctx, l); err != nil {
			addF("valid-rule-rejected:keeper", fmt.Sprintf("list %v: %v", l, err), l)
			continue
		}
		for _, x := range []string{"a", "b", "c"} {
			for _, y := range []string{"a", "b", "c"} {
				for _, z := range []string{"a", "b", "c"} {
					want := ruleAllows(l, x, y, z)
					got := rk.Authenticate(ctx, x, y, z)
					evals++
					if got != want {
						addF("rule-list-semantics-differ", fmt.Sprintf("rules %v, triple %s,%s,%s: authorised=%v, reference %v", l, x, y, z, got, want), l)
					}
				}
			}
		}
	}
	// ---- part 4: rule changes on a state branch that is thrown away (a failed or simulated transaction) leave the
	// authorisation as it was: R1 stored, R2 set on a discarded child branch, every triple judged against R1 again; then
	// R2 written back, judged against R2
	branchPairs := 0
	short := lists[:1+len(small)]
	for _, r1 := range short {
		for _, r2 := range short {
			ctx := c.ReadCtx(c.LastTime())
			if err := rk.SetRoutingRules(ctx, r1); err != nil {
				continue
			}
			child, write := ctx.CacheContext()
			if err := rk.SetRoutingRules(child, r2); err != nil {
				continue
			}
			branchPairs++
			judge := func(stage string, rules []string) {
				if stored, _ := rk.GetRoutingRules(ctx); strings.Join(stored, ";") != strings.Join(rules, ";") {
					addF("stored-rules-differ-after-"+stage, fmt.Sprintf("R1=%v R2=%v: stored %v", r1, r2, stored), r1)
				}
				for _, x := range []string{"a", "b", "c"} {
					for _, y := range []string{"a", "b", "c"} {
						for _, z := range []string{"a", "b", "c"} {
							evals++
							if got, want := rk.Authenticate(ctx, x, y, z), ruleAllows(rules, x, y, z); got != want {
								addF("authorisation-differs-after-"+stage, fmt.Sprintf("R1=%v, R2=%v set on a child branch, triple %s,%s,%s: authorised=%v, reference %v", r1, r2, x, y, z, got, want), r1)
							}
						}
					}
				}
			}
			judge("discarded-branch", r1)
			write()
			judge("written-branch", r2)
		}
	}
	// nothing stored at all (fresh chain) authorises nothing
	if rk.Authenticate(c.ReadCtx(c.LastTime()), "a", "b", "c") {
		addF("no-rules-authorise-something", "fresh chain authorises a,b,c", "")
	}
	cov := map[string]any{
		"evaluations": evals, "distinct_nontrivial": accepted + authTrue,
		"rule":   "every string up to the stated length over the stated alphabets is enumerated once; non-trivial = rule strings that are accepted plus (rule, triple) pairs that are authorised (the rest are rejected/unauthorised, also judged)",
		"states": len(ruleStrs) + len(fields)*6 + len(lists), "transitions": evals, "traces_validated_against_impl": evals,
		"samples":      []any{ruleStrs[len(ruleStrs)/3], ruleStrs[len(ruleStrs)-16], fields[len(fields)/2] + ",*,* vs " + idents[len(idents)/3], lists[len(lists)/2]},
		"exhaustive":   true,
		"rule_strings": len(ruleStrs), "rules_accepted": accepted, "rules_rejected": rejected,
		"match_fields": len(fields), "match_identifiers": len(idents), "authorised": authTrue, "unauthorised": authFalse, "rule_lists": len(lists),
		"bounds":       fmt.Sprintf("accept/reject: all strings of length <= %d over {a b . + [ ] * , (} plus hand-written boundary strings (64/65 characters, blanks, '/', newline, non-ASCII); matching: every rule field and identifier of length <= %d over {a b . + [ ] - # < > _} in each of the three positions with the other positions '*' and literal; all lists of <= 2 rules over {a,b,*}^3 against {a,b,c}^3; every ordered pair of lists of <= 1 rule: the second set on a child state branch that is first discarded, then written", acceptLen, fieldLen),
		"branch_pairs": branchPairs,
	}
	fmt.Fprintf(os.Stderr, "[C12] evaluations=%d accepted=%d rejected=%d authorised=%d unauthorised=%d (%.1fs)\n", evals, accepted, rejected, authTrue, authFalse, time.Since(start).Seconds())
	return report.Finish("C12", tier, start, "model_checking", cov, []string{
		"reference: a rule is valid iff it has exactly three comma-separated fields, each '*' or 1..64 characters of [A-Za-z0-9._+-#[]<>]; a triple is authorised iff some stored rule matches it field by field, '*' matching anything and any other field only the identical string",
		"calls go through RoutingKeeper.SetRoutingRules / Authenticate on a branch of a real chain's committed state and, for a slice of the rule strings, through MsgSetRoutingRules on the message router with the governance authority",
		"identifiers containing ',' are outside the property's identifier alphabet and are not enumerated",
	}, findings)
}

// metaClass names the regular-expression meta characters a rule field contains (for finding signatures).
func metaClass(f string) string {
	var m []string
	for _, ch := range []string{"+", "[", "]", "."} {
		if strings.Contains(f, ch) {
			m = append(m, ch)
		}
	}
	if len(m) == 0 {
		return "plain"
	}
	return "field-with-" + strings.Join(m, "")
}
