package props

import (
	"bytes"
	"crypto/ecdsa"
	"crypto/sha256"
	"fmt"
	"math/big"
	"os"
	"sort"
	"strings"
	"sync"
	"time"

	sdk "github.com/cosmos/cosmos-sdk/types"
	"github.com/ethereum/go-ethereum/common"
	ethtypes "github.com/ethereum/go-ethereum/core/types"
	"github.com/ethereum/go-ethereum/crypto"
	"github.com/ethereum/go-ethereum/rlp"

	clienttypes "github.com/bianjieai/tibc-go/modules/tibc/core/02-client/types"
	bsctypes "github.com/bianjieai/tibc-go/modules/tibc/light-clients/08-bsc/types"

	"verif/mc/explore"
	"verif/mc/report"
	"verif/mc/world"
)

const (
	bscName    = "bscchainb"
	bscChainID = 56
)

// bscGas is the gas limit of the trusted header and of every valid header built on it. It is 30M except in the
// low-gas scenario of C17, where the parent's gas limit is so close to the 5000 minimum that a header below the
// minimum is still within the allowed step from its parent.
var bscGas uint64 = 30_000_000

var bscUncleHash = ethtypes.CalcUncleHash(nil)

func bscKey(i int) *ecdsa.PrivateKey {
	h := sha256.Sum256([]byte(fmt.Sprintf("verif-bsc-%d", i)))
	k, err := crypto.ToECDSA(h[:])
	if err != nil {
		panic(err)
	}
	return k
}

func bscAddr(i int) common.Address { return crypto.PubkeyToAddress(bscKey(i).PublicKey) }

// bscSealHash replicates Parlia's seal hash: keccak(rlp([chainId, header fields with the seal cut off])).
func bscSealHash(h bsctypes.Header) []byte {
	bz, err := rlp.EncodeToBytes([]interface{}{
		big.NewInt(bscChainID), h.ParentHash, h.UncleHash, h.Coinbase, h.Root, h.TxHash, h.ReceiptHash, h.Bloom, h.Difficulty,
		h.Height.RevisionHeight, h.GasLimit, h.GasUsed, h.Time, h.Extra[:len(h.Extra)-65], h.MixDigest, h.Nonce,
	})
	if err != nil {
		panic(err)
	}
	return crypto.Keccak256(bz)
}

func sortedAddrs(idx []int) []common.Address {
	var out []common.Address
	for _, i := range idx {
		out = append(out, bscAddr(i))
	}
	sort.Slice(out, func(a, b int) bool { return bytes.Compare(out[a][:], out[b][:]) < 0 })
	return out
}

// bscSpec describes a header relative to its parent.
type bscSpec struct {
	Signer    int // key index that seals
	Coinbase  int // key index written into coinbase (normally = Signer)
	Diff      uint64
	Announce  []int // validator key indices written into the extra data (nil = none)
	ExtraPad  int   // extra bytes appended to the validator section (to break the multiple-of-20 rule)
	NumberOff int64 // 1 = direct child
	BadParent bool
	GasLimit  uint64
	GasUsed   uint64
	MixDigest bool
	BadUncle  bool
	Label     string
}

func (s bscSpec) build(parent bsctypes.Header) *bsctypes.Header {
	extra := make([]byte, 32)
	for _, v := range s.Announce {
		extra = append(extra, bscAddr(v).Bytes()...)
	}
	extra = append(extra, make([]byte, s.ExtraPad)...)
	extra = append(extra, make([]byte, 65)...)
	ph := parent.Hash()
	parentHash := ph[:]
	if s.BadParent {
		parentHash = crypto.Keccak256([]byte("not the parent"))
	}
	num := uint64(int64(parent.Height.RevisionHeight) + s.NumberOff)
	h := &bsctypes.Header{
		ParentHash: parentHash, UncleHash: bscUncleHash[:], Coinbase: bscAddr(s.Coinbase).Bytes(),
		Root: crypto.Keccak256([]byte(fmt.Sprintf("root-%d", num))), TxHash: make([]byte, 32), ReceiptHash: make([]byte, 32), Bloom: make([]byte, 256),
		Difficulty: s.Diff, Height: clienttypes.NewHeight(0, num), GasLimit: s.GasLimit, GasUsed: s.GasUsed,
		Time: parent.Time + 3, Extra: extra, MixDigest: make([]byte, 32), Nonce: make([]byte, 8),
	}
	if s.MixDigest {
		h.MixDigest[31] = 1
	}
	if s.BadUncle {
		h.UncleHash = crypto.Keccak256([]byte("uncle"))
	}
	sig, err := crypto.Sign(bscSealHash(*h), bscKey(s.Signer))
	if err != nil {
		panic(err)
	}
	copy(h.Extra[len(h.Extra)-65:], sig)
	return h
}

// bscGhost is the Parlia reference state.
type bscGhost struct {
	Number  uint64
	Vals    []int // current validator key indices
	Pending []int
	Signers map[uint64]int // height -> signer key index (all accepted blocks)
	Epoch   uint64
}

func (g bscGhost) clone() bscGhost {
	n := bscGhost{Number: g.Number, Vals: append([]int{}, g.Vals...), Pending: append([]int{}, g.Pending...), Signers: map[uint64]int{}, Epoch: g.Epoch}
	for k, v := range g.Signers {
		n.Signers[k] = v
	}
	return n
}

func (g bscGhost) key() string {
	var rec []string
	n := uint64(len(g.Vals))
	for h := g.Number; h+n+2 > g.Number && h > 0; h-- { // a window wide enough for any set size in the alphabet
		if s, ok := g.Signers[h]; ok {
			rec = append(rec, fmt.Sprintf("%d:%d", g.Number-h, s))
		}
		if g.Number-h > 4 {
			break
		}
	}
	return fmt.Sprintf("n=%d vals=%v pend=%v rec=%v", g.Number, g.Vals, g.Pending, rec)
}

func contains(l []int, x int) bool {
	for _, v := range l {
		if v == x {
			return true
		}
	}
	return false
}

// expect is the Parlia rule as the property words it.
func (g bscGhost) expect(s bscSpec) bool {
	if s.NumberOff != 1 || s.BadParent || s.MixDigest || s.BadUncle {
		return false
	}
	num := g.Number + 1
	isEpoch := num%g.Epoch == 0
	if !isEpoch && (len(s.Announce) > 0 || s.ExtraPad > 0) {
		return false
	}
	if isEpoch && s.ExtraPad%20 != 0 {
		return false
	}
	if s.Coinbase != s.Signer {
		return false
	}
	if !contains(g.Vals, s.Signer) {
		return false
	}
	n := uint64(len(g.Vals))
	for h := num - 1; h+n/2 >= num && h >= 1; h-- { // the preceding floor(N/2) blocks
		if sg, ok := g.Signers[h]; ok && sg == s.Signer {
			return false
		}
		if h == 0 {
			break
		}
	}
	sorted := sortedAddrs(g.Vals)
	inturn := sorted[num%n] == bscAddr(s.Signer)
	if inturn && s.Diff != 2 || !inturn && s.Diff != 1 {
		return false
	}
	// gas rules
	if s.GasLimit > 0x7fffffffffffffff || s.GasUsed > s.GasLimit || s.GasLimit < 5000 {
		return false
	}
	d := int64(bscGas) - int64(s.GasLimit)
	if d < 0 {
		d = -d
	}
	if uint64(d) >= bscGas/256 {
		return false
	}
	return true
}

func (g bscGhost) apply(s bscSpec) bscGhost {
	n := g.clone()
	n.Number++
	if n.Number%g.Epoch == 0 {
		n.Pending = append([]int{}, s.Announce...)
	}
	if n.Number%g.Epoch == uint64(len(g.Vals)/2) {
		n.Vals = append([]int{}, n.Pending...)
	}
	n.Signers[n.Number] = s.Signer
	return n
}

type bscState struct {
	Hist  []bscSpec
	Ghost bscGhost
}

type bscScenario struct {
	N     int
	Epoch uint64
}

func (sc bscScenario) genesis() (bsctypes.Header, []int) {
	var vals []int
	for i := 0; i < sc.N; i++ {
		vals = append(vals, i)
	}
	extra := make([]byte, 32)
	for _, v := range vals {
		extra = append(extra, bscAddr(v).Bytes()...)
	}
	extra = append(extra, make([]byte, 65)...)
	return bsctypes.Header{
		ParentHash: make([]byte, 32), UncleHash: bscUncleHash[:], Coinbase: make([]byte, 20), Root: make([]byte, 32), TxHash: make([]byte, 32),
		ReceiptHash: make([]byte, 32), Bloom: make([]byte, 256), Difficulty: 2, Height: clienttypes.NewHeight(0, 10*sc.Epoch), GasLimit: bscGas,
		Time: 1_600_000_000, Extra: extra, MixDigest: make([]byte, 32), Nonce: make([]byte, 8),
	}, vals
}

// build replays a history through the client keeper on a fresh branch; it returns the context and the latest header.
func (sc bscScenario) build(c *world.Chain, hist []bscSpec) (sdk.Context, bsctypes.Header, error) {
	ctx := c.ReadCtx(time.Unix(1_600_000_100, 0))
	ck := c.App.TIBCKeeper.ClientKeeper
	gen, vals := sc.genesis()
	var vb [][]byte
	for _, v := range sortedAddrs(vals) {
		vb = append(vb, v.Bytes())
	}
	cs := &bsctypes.ClientState{Header: gen, ChainId: bscChainID, Epoch: sc.Epoch, BlockInteval: 3, Validators: vb, ContractAddress: make([]byte, 20), TrustingPeriod: 1 << 40}
	cons := &bsctypes.ConsensusState{Timestamp: gen.Time, Number: gen.Height, Root: gen.Root}
	must(ck.CreateClient(ctx, bscName, cs, cons))
	parent := gen
	for _, s := range hist {
		h := s.build(parent)
		if err := ck.UpdateClient(ctx, bscName, h); err != nil {
			return ctx, parent, fmt.Errorf("header %q, accepted when this history was explored, is refused when the history is replayed on a fresh state branch: %v", s.Label, err)
		}
		parent = *h
	}
	return ctx, parent, nil
}

// menu lists the judged inputs in state st.
func (sc bscScenario) menu(st bscState) []bscSpec {
	g := st.Ghost
	num := g.Number + 1
	isEpoch := num%g.Epoch == 0
	announces := [][]int{nil}
	annNames := []string{"none"}
	if isEpoch {
		base := g.Vals
		fresh := 20 + int(num)
		add := append(append([]int{}, base...), fresh)
		var rem []int
		if len(base) > 1 {
			rem = append([]int{}, base[:len(base)-1]...)
		}
		rep := append([]int{}, base...)
		rep[0] = fresh + 1
		announces = [][]int{base, add, rep}
		annNames = []string{"same", "plus-one", "one-replaced"}
		if rem != nil {
			announces = append(announces, rem)
			annNames = append(annNames, "minus-one")
		}
	}
	var out []bscSpec
	signers := append(append([]int{}, g.Vals...), 99) // every current validator and one outsider
	for _, p := range g.Pending {
		if !contains(signers, p) {
			signers = append(signers, p) // announced but not yet effective
		}
	}
	for ai, ann := range announces {
		for _, s := range signers {
			for _, d := range []uint64{2, 1} {
				out = append(out, bscSpec{Signer: s, Coinbase: s, Diff: d, Announce: ann, NumberOff: 1, GasLimit: bscGas,
					Label: fmt.Sprintf("signer=%d diff=%d announce=%s", s, d, annNames[ai])})
			}
		}
	}
	// single-field corruptions of an otherwise valid header
	var valid *bscSpec
	for i := range out {
		if g.expect(out[i]) {
			valid = &out[i]
			break
		}
	}
	if valid == nil {
		return out
	}
	c := func(label string, f func(s *bscSpec)) {
		s := *valid
		s.Announce = append([]int{}, valid.Announce...)
		f(&s)
		s.Label = valid.Label + " corrupted:" + label
		out = append(out, s)
	}
	c("parent-hash", func(s *bscSpec) { s.BadParent = true })
	c("number+1", func(s *bscSpec) { s.NumberOff = 2 })
	c("number-same-as-latest", func(s *bscSpec) { s.NumberOff = 0 })
	c("gas-limit-at-bound", func(s *bscSpec) { s.GasLimit = bscGas + bscGas/256 })
	c("gas-limit-just-inside-bound", func(s *bscSpec) { s.GasLimit = bscGas + bscGas/256 - 1 })
	c("gas-limit-at-lower-bound", func(s *bscSpec) { s.GasLimit = bscGas - bscGas/256 })
	c("gas-limit-just-inside-lower-bound", func(s *bscSpec) { s.GasLimit = bscGas - bscGas/256 + 1 })
	c("gas-limit-below-minimum", func(s *bscSpec) { s.GasLimit = 4999 })
	c("gas-limit-at-minimum", func(s *bscSpec) { s.GasLimit = 5000 })
	c("gas-used-above-limit", func(s *bscSpec) { s.GasUsed = bscGas + 1 })
	c("gas-used-equals-limit", func(s *bscSpec) { s.GasUsed = bscGas })
	c("validator-bytes-where-not-allowed-or-misaligned", func(s *bscSpec) {
		if len(s.Announce) == 0 && (g.Number+1)%g.Epoch != 0 {
			s.Announce = []int{0}
		} else {
			s.ExtraPad = 7
		}
	})
	c("mix-digest", func(s *bscSpec) { s.MixDigest = true })
	c("uncle-hash", func(s *bscSpec) { s.BadUncle = true })
	c("coinbase-not-signer", func(s *bscSpec) { s.Coinbase = 98 })
	c("sealed-by-another-key-coinbase-kept", func(s *bscSpec) { s.Signer = 97 })
	c("zero-difficulty", func(s *bscSpec) { s.Diff = 0 })
	c("difficulty-3", func(s *bscSpec) { s.Diff = 3 })
	return out
}

// CheckC17: BSC client follows only a correctly sealed, hash-linked header chain.
func CheckC17(tier string) int {
	start := time.Now()
	scen := []bscScenario{{1, 4}, {2, 4}, {3, 4}, {4, 4}}
	blocks := 9
	if tier == "thorough" {
		scen = append(scen, bscScenario{3, 6}, bscScenario{4, 6}, bscScenario{5, 4}, bscScenario{7, 8}, bscScenario{21, 30})
		blocks = 10
	}
	base := world.NewWorld(world.WorldOpts{Names: []string{A}, NoMesh: true})
	init := base.Freeze()
	var mu sync.Mutex
	var findings []explore.Finding
	addF := func(sc bscScenario, st bscState, sig, detail, probe string) {
		mu.Lock()
		defer mu.Unlock()
		for _, f := range findings {
			if f.Signature == sig {
				return
			}
		}
		path := []string{fmt.Sprintf("validators=%d epoch=%d", sc.N, sc.Epoch)}
		for _, h := range st.Hist {
			path = append(path, h.Label)
		}
		findings = append(findings, explore.Finding{Property: "C17", Signature: sig, Detail: detail, Path: path, Probe: probe})
	}
	states, evals, accepts, rejects := 0, 0, 0, 0
	var samples []any
	perScenario := map[string]int{}
	stateCap := 30000
	if tier == "thorough" {
		stateCap = 400000
	}
	exhaustive := true
	gasOf := make([]uint64, len(scen))
	for i := range scen {
		gasOf[i] = 30_000_000
	}
	scen = append(scen, bscScenario{2, 4})
	gasOf = append(gasOf, 5010)
	defer func() { bscGas = 30_000_000 }()
	for si, sc := range scen {
		bscGas = gasOf[si]
		_, vals := sc.genesis()
		gen, _ := sc.genesis()
		g0 := bscGhost{Number: gen.Height.RevisionHeight, Vals: vals, Pending: vals, Signers: map[uint64]int{}, Epoch: sc.Epoch}
		frontier := []bscState{{Ghost: g0}}
		seen := map[string]bool{g0.key(): true}
		maxBlocks := blocks
		if sc.N > 5 {
			maxBlocks = 4 // large sets: in-turn / out-of-turn / recent-boundary behaviour over a few blocks only
		}
		if sc.N > 10 {
			maxBlocks = 3
		}
		scStates := 0
		for depth := 0; depth <= maxBlocks && len(frontier) > 0; depth++ {
			var next []bscState
			var nmu sync.Mutex
			var wg sync.WaitGroup
			jobs := make(chan bscState, len(frontier))
			for _, st := range frontier {
				jobs <- st
			}
			close(jobs)
			for k := 0; k < workers(); k++ {
				wg.Add(1)
				go func(k int) {
					defer wg.Done()
					w := base
					if k > 0 {
						w = base.Shadow()
					}
					w.Mount(init)
					c := w.C(A)
					ck := c.App.TIBCKeeper.ClientKeeper
					for st := range jobs {
						ctx, parent, berr := sc.build(c, st.Hist)
						if berr != nil {
							// the same headers on the same trusted state gave another verdict than a moment ago
							addF(sc, st, "verdict-on-a-header-chain-changed-between-two-executions", berr.Error(), "")
							continue
						}
						before := world.DumpStore(ctx, "tibc", c.App.GetKey("tibc"), []byte("clients/"+bscName+"/"))
						for _, s := range sc.menu(st) {
							want := st.Ghost.expect(s)
							h := s.build(parent)
							cctx, _ := ctx.CacheContext()
							err := ck.UpdateClient(cctx, bscName, h)
							got := err == nil
							mu.Lock()
							evals++
							if got {
								accepts++
							} else {
								rejects++
							}
							if len(samples) < 4 && got {
								samples = append(samples, map[string]any{"scenario": fmt.Sprintf("N=%d epoch=%d", sc.N, sc.Epoch), "after_blocks": len(st.Hist), "header": s.Label})
							}
							mu.Unlock()
							if got != want {
								kind := "invalid-header-accepted"
								if want {
									kind = "valid-header-rejected"
								}
								what := s.Label
								if i := strings.Index(what, "corrupted:"); i >= 0 {
									what = what[i:]
								} else {
									what = "signer/difficulty/announcement"
								}
								addF(sc, st, kind+":"+what, fmt.Sprintf("%s at height %d: accepted=%v reference=%v err=%v (ghost %s)", s.Label, st.Ghost.Number+1, got, want, err, st.Ghost.key()), s.Label)
								continue
							}
							if !got {
								continue
							}
							// after acceptance: latest header, validators and consensus state
							csI, _ := ck.GetClientState(cctx, bscName)
							cs := csI.(*bsctypes.ClientState)
							ng := st.Ghost.apply(s)
							if cs.Header.Hash() != h.Hash() {
								addF(sc, st, "latest-header-not-the-accepted-header", s.Label, s.Label)
							}
							var have []string
							for _, v := range cs.Validators {
								have = append(have, common.BytesToAddress(v).Hex())
							}
							var wantV []string
							for _, a := range sortedAddrs(ng.Vals) {
								wantV = append(wantV, a.Hex())
							}
							sort.Strings(have)
							sort.Strings(wantV)
							if fmt.Sprint(have) != fmt.Sprint(wantV) {
								addF(sc, st, "validator-set-not-effective-at-the-right-block", fmt.Sprintf("height %d: client has %v, reference %v", ng.Number, have, wantV), s.Label)
							}
							consI, ok := ck.GetClientConsensusState(cctx, bscName, h.Height)
							if !ok {
								addF(sc, st, "no-consensus-state-for-accepted-header", s.Label, s.Label)
							} else if cons := consI.(*bsctypes.ConsensusState); cons.Timestamp != h.Time || !bytes.Equal(cons.Root, h.Root) {
								addF(sc, st, "consensus-state-differs-from-header", s.Label, s.Label)
							}
							if strings.Contains(s.Label, "corrupted:") {
								continue // boundary variants are judged, not used to extend the chain
							}
							nmu.Lock()
							if k := ng.key(); !seen[k] && len(seen) < stateCap {
								seen[k] = true
								next = append(next, bscState{Hist: append(append([]bscSpec{}, st.Hist...), s), Ghost: ng})
							} else if !seen[k] {
								exhaustive = false
							}
							nmu.Unlock()
						}
						// rejected inputs must not have touched the store (they ran on branches; the base is compared here)
						after := world.DumpStore(ctx, "tibc", c.App.GetKey("tibc"), []byte("clients/"+bscName+"/"))
						if world.HashKVs(before, nil) != world.HashKVs(after, nil) {
							addF(sc, st, "probe-branch-leaked-into-base", "", "")
						}
					}
				}(k)
			}
			wg.Wait()
			scStates += len(frontier)
			sort.Slice(next, func(i, j int) bool { return next[i].Ghost.key() < next[j].Ghost.key() })
			frontier = next
		}
		states += scStates
		perScenario[fmt.Sprintf("N=%d epoch=%d gas=%d", sc.N, sc.Epoch, bscGas)] = scStates
		fmt.Fprintf(os.Stderr, "[C17] N=%d epoch=%d: states=%d (total evaluations %d) (%.1fs)\n", sc.N, sc.Epoch, scStates, evals, time.Since(start).Seconds())
	}
	cov := map[string]any{
		"states": states, "transitions": evals, "traces_validated_against_impl": evals,
		"evaluations": evals, "distinct_nontrivial": accepts, "rule": "every header of the per-state alphabet is built with a real secp256k1 seal and submitted once; non-trivial = accepted headers (each also checked for the resulting client state)",
		"accepted": accepts, "rejected": rejects, "states_per_scenario": perScenario, "samples": samples, "exhaustive": exhaustive,
		"bounds": fmt.Sprintf("validator sets of %v members (epoch length alongside), chains of up to %d blocks past the trusted epoch block (4 blocks for sets above 5); per block: sealer = every current validator, every announced-but-not-yet-effective validator and an outsider x difficulty {2,1} x (at epoch blocks) announced set {same, plus one, one replaced, minus one}; single-field corruptions of a valid header: parent hash, number +-1, gas limit at / just inside both bounds, at and below 5000 (also from a parent with gas limit 5010, where the step bound alone would allow it), gas used above / equal limit, validator bytes off an epoch block or misaligned, mix digest, uncle hash, coinbase != sealer, sealed by another key, difficulty 0 / 3; states merged by (height, validators, pending validators, sealers of the last blocks)", scen, blocks),
	}
	return report.Finish("C17", tier, start, "model_checking", cov, []string{
		"Parlia reference: direct child of the latest header; sealer in the current set (size N) and not the sealer of any of the preceding floor(N/2) blocks; difficulty 2 iff sealer = sorted(validators)[number mod N], else 1; |gas limit - parent's| < parent's/256, gas limit >= 5000, gas used <= gas limit; validator bytes only on epoch blocks and a multiple of 20; the set announced at an epoch block becomes effective at the block whose number mod epoch = floor(N/2)",
		"state merging argument: the verdict on the next header depends on the stored state only through height, validator set, pending set, the recent sealers and the parent's hash and gas limit; the hash only links (children are built on the concrete parent) and the gas limit is constant",
		"header timestamps are not part of the property's rule and are not varied",
	}, findings)
}
