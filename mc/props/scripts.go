package props

import (
	"fmt"
	"sync"

	"verif/mc/explore"
	"verif/mc/world"
)

// ScriptStats counts what scripted enumerations executed.
type ScriptStats struct {
	mu          sync.Mutex
	Executions  int
	Steps       int
	Outcomes    map[string]int
	Samples     []any
	StatesSeen  map[string]bool
	Transitions int
}

func newStats() *ScriptStats {
	return &ScriptStats{Outcomes: map[string]int{}, StatesSeen: map[string]bool{}}
}

func (s *ScriptStats) note(outcome string, steps int, sample any) {
	s.mu.Lock()
	defer s.mu.Unlock()
	s.Executions++
	s.Steps += steps
	s.Outcomes[outcome]++
	if len(s.Samples) < 4 || (s.Outcomes[outcome] == 1 && len(s.Samples) < 12) {
		s.Samples = append(s.Samples, sample)
	}
}

func (s *ScriptStats) state(key string) {
	s.mu.Lock()
	s.StatesSeen[key] = true
	s.mu.Unlock()
}

// RunScripts executes n scripted executions in parallel; each starts from the base world value on a worker-local world.
func RunScripts(base *world.World, init world.WState, n int, f func(i int, w *world.World) []explore.Finding) []explore.Finding {
	var mu sync.Mutex
	var all []explore.Finding
	var wg sync.WaitGroup
	jobs := make(chan int, n)
	for i := 0; i < n; i++ {
		jobs <- i
	}
	close(jobs)
	nw := workers()
	if nw > n {
		nw = n
	}
	var panics []string
	for k := 0; k < nw; k++ {
		var w *world.World
		if k == 0 {
			w = base
		} else {
			w = base.Shadow()
		}
		wg.Add(1)
		go func(w *world.World) {
			defer wg.Done()
			for i := range jobs {
				func() {
					defer func() {
						if r := recover(); r != nil {
							mu.Lock()
							panics = append(panics, fmt.Sprintf("script %d: %v", i, r))
							mu.Unlock()
						}
					}()
					w.Mount(init)
					fs := f(i, w)
					mu.Lock()
					all = append(all, fs...)
					mu.Unlock()
				}()
			}
		}(w)
	}
	wg.Wait()
	if len(panics) > 0 {
		panic(fmt.Sprint("harness/implementation panic in scripted execution: ", panics))
	}
	return all
}
