package props

import (
	"bytes"
	"fmt"
	"sort"
	"strings"
	"time"

	abci "github.com/cometbft/cometbft/abci/types"
	mttypes "mods.irisnet.org/modules/mt/types"

	mttransfer "github.com/bianjieai/tibc-go/modules/tibc/apps/mt_transfer/types"
	nfttransfer "github.com/bianjieai/tibc-go/modules/tibc/apps/nft_transfer/types"
	packettypes "github.com/bianjieai/tibc-go/modules/tibc/core/04-packet/types"

	"verif/mc/explore"
	"verif/mc/world"
)

// FailingSends are sends that must fail and leave no trace.
func FailingSends(m *PktModel, w *world.World, g Ghost) []UserAction {
	var out []UserAction
	mock := func(label, src string, mk func(c *world.Chain) packettypes.Packet) {
		out = append(out, UserAction{Label: "badsend:" + label, On: src, Run: func(w *world.World) (*world.Chain, world.TxRes) {
			c := w.C(src)
			p := mk(c)
			if err := w.SendMock(c, p); err != nil {
				return c, world.TxRes{Code: 1, Log: err.Error()}
			}
			return c, world.TxRes{Events: []abci.Event{sendEvent(p)}}
		}})
	}
	next := func(c *world.Chain, dst string) uint64 { return c.NextSeqSend(c.Name, dst) }
	mock("mock-unknown-destination", A, func(c *world.Chain) packettypes.Packet {
		return packettypes.NewPacket([]byte("x"), next(c, "zchainzzz"), A, "zchainzzz", "", "tibcmock")
	})
	mock("mock-unknown-relay", A, func(c *world.Chain) packettypes.Packet {
		return packettypes.NewPacket([]byte("x"), next(c, B), A, B, "zchainzzz", "tibcmock")
	})
	mock("mock-destination-is-self", A, func(c *world.Chain) packettypes.Packet {
		return packettypes.NewPacket([]byte("x"), next(c, A), A, A, "", "tibcmock")
	})
	mock("mock-sequence+1", A, func(c *world.Chain) packettypes.Packet {
		return packettypes.NewPacket([]byte("x"), next(c, B)+1, A, B, "", "tibcmock")
	})
	mock("mock-sequence-reused", A, func(c *world.Chain) packettypes.Packet {
		n := next(c, B)
		if n > 1 {
			n--
		} else {
			n = 0
		}
		return packettypes.NewPacket([]byte("x"), n, A, B, "", "tibcmock")
	})
	mock("mock-empty-data", A, func(c *world.Chain) packettypes.Packet {
		return packettypes.NewPacket(nil, next(c, B), A, B, "", "tibcmock")
	})
	mock("mock-foreign-source", A, func(c *world.Chain) packettypes.Packet {
		return packettypes.NewPacket([]byte("x"), 1, B, C, "", "tibcmock")
	})
	nft := func(label string, signer int, class, id, dst, relay string) {
		out = append(out, UserAction{Label: "badsend:" + label, On: A, Run: func(w *world.World) (*world.Chain, world.TxRes) {
			c := w.C(A)
			u := User(c, signer)
			return c, w.Tx(c, u, nfttransfer.NewMsgNftTransfer(class, id, u.Addr.String(), User(w.C(B), 1).Addr.String(), dst, relay, ""))
		}})
	}
	// multi-token sends that pass every token check but are refused by the packet layer
	mtbad := func(label, dst, relay string) {
		out = append(out, UserAction{Label: "badsend:" + label, On: A, Run: func(w *world.World) (*world.Chain, world.TxRes) {
			c := w.C(A)
			u := User(c, 1)
			var class, id string
			for k, v := range MtHoldings(c).Bal {
				p := strings.Split(k, "|")
				if p[2] == u.Addr.String() && v >= 1 {
					class, id = p[0], p[1]
				}
			}
			return c, w.Tx(c, u, mttransfer.NewMsgMtTransfer(class, id, u.Addr.String(), User(w.C(B), 1).Addr.String(), dst, relay, "", 1))
		}})
	}
	mtbad("mt-unknown-destination", "zchainzzz", "")
	mtbad("mt-unknown-relay", B, "zchainzzz")
	mtbad("mt-destination-is-self", A, "")
	// cls/tok2 stays with user 1 in this scenario (only tok1 is offered for honest transfers)
	nft("nft-not-owner", 2, "cls", "tok2", B, "")
	nft("nft-class-missing", 1, "nocls", "tok2", B, "")
	nft("nft-token-missing", 1, "cls", "tok9", B, "")
	nft("nft-unknown-destination", 1, "cls", "tok2", "zchainzzz", "")
	nft("nft-unknown-relay", 1, "cls", "tok2", B, "zchainzzz")
	nft("nft-destination-is-self", 1, "cls", "tok2", A, "")
	out = append(out, notOwnerSends(w, "badsend:nft-not-owner")...)
	return out
}

// notOwnerSends: for every NFT a user holds on any chain (natives and vouchers alike) the other user of that chain tries
// to transfer it to every other chain. Labels are prefix:<native|voucher>:<chain>><destination>.
func notOwnerSends(w *world.World, prefix string) []UserAction {
	var out []UserAction
	for _, c := range w.Chains {
		hold := NftHoldings(c)
		var keys []string
		for k := range hold {
			keys = append(keys, k)
		}
		sort.Strings(keys)
		for _, k := range keys {
			owner, ok := isUser(c, hold[k])
			if !ok {
				continue
			}
			thief := User(c, 1)
			if thief.Addr.String() == owner.Addr.String() {
				thief = User(c, 2)
			}
			parts := strings.SplitN(k, "|", 2)
			class, id := parts[0], parts[1]
			kind := "native"
			if strings.HasPrefix(class, "tibc-") {
				kind = "voucher"
			}
			for _, d := range w.Chains {
				if d == c {
					continue
				}
				cn, dn := c.Name, d.Name
				label := fmt.Sprintf("%s:%s:%s/%s@%s>%s", prefix, kind, class, id, cn, dn)
				out = append(out, UserAction{Label: label, On: cn, Run: func(w *world.World) (*world.Chain, world.TxRes) {
					cc := w.C(cn)
					return cc, w.Tx(cc, thief, nfttransfer.NewMsgNftTransfer(class, id, thief.Addr.String(), User(w.C(dn), 1).Addr.String(), dn, "", ""))
				}})
			}
		}
	}
	return out
}

// SendStepCheck is the C09 oracle for user transitions.
func SendStepCheck(m *PktModel, w *world.World, ev *StepEvent) []explore.Finding {
	var fs []explore.Finding
	add := func(sig, detail string) {
		if m.Props["C09"] {
			fs = append(fs, explore.Finding{Property: "C09", Signature: sig, Detail: detail})
		}
	}
	if ev.Kind != "user" || ev.Before == nil {
		// inbound traffic must not touch send sequences or commitments of this chain's own channels
		if ev.Before != nil && ev.After != nil && ev.Chain != nil {
			bm := map[string][]byte{}
			for _, kv := range ev.Before {
				bm[string(kv.K)] = kv.V
			}
			am := map[string]bool{}
			for _, kv := range ev.After {
				am[string(kv.K)] = true
				if kv.Store == "tibc" && strings.HasPrefix(string(kv.K), "nextSequenceSend/") && !bytes.Equal(bm[string(kv.K)], kv.V) {
					add("send-sequence-changed-by-inbound-message", string(kv.K)+" by "+ev.Label)
				}
			}
			// a commitment disappears only through the acknowledgement of exactly that packet
			for _, kv := range ev.Before {
				k := string(kv.K)
				if kv.Store != "tibc" || !strings.HasPrefix(k, "commitments/") || am[k] {
					continue
				}
				own := ev.Kind == "ack" && k == fmt.Sprintf("commitments/%s/%s/sequences/%d", ev.Pkt.SourceChain, ev.Pkt.DestinationChain, ev.Pkt.Sequence)
				if !own {
					add("commitment-removed-by-a-message-that-does-not-acknowledge-it", k+" by "+ev.Label)
				}
			}
		}
		return fs
	}
	diff := world.DiffKVs(filterClients(ev.Before), filterClients(ev.After))
	if strings.HasPrefix(ev.Label, "badsend:") {
		name := strings.TrimPrefix(ev.Label, "badsend:")
		if p := strings.SplitN(name, ":", 3); p[0] == "nft-not-owner" && len(p) == 3 {
			name = p[0] + ":" + p[1] // native | voucher; the concrete token is in the detail
		}
		if ev.Res.OK() {
			add("invalid-send-accepted:"+name, ev.Label)
		} else if len(diff) > 0 {
			add("failed-send-changed-state:"+name, fmt.Sprint(diff))
		}
		return fs
	}
	if !ev.Res.OK() {
		if len(diff) > 0 {
			add("failed-send-changed-state", fmt.Sprint(diff))
		}
		return fs
	}
	np := newPkts(ev.GBefore, *ev.GAfter)
	if len(np) != 1 {
		add("send-did-not-announce-exactly-one-packet", fmt.Sprint(len(np)))
		return fs
	}
	p := np[0].P
	// gap-free: the new sequence is the number of packets announced before on this pair + 1
	n := uint64(0)
	for _, r := range ev.GBefore.Pkts {
		if r.P.SourceChain == p.SourceChain && r.P.DestinationChain == p.DestinationChain {
			n++
		}
	}
	if p.Sequence != n+1 {
		add("sequence-gap-or-reuse", fmt.Sprintf("%s got sequence %d after %d earlier sends", pid(p), p.Sequence, n))
	}
	if p.SourceChain != ev.Chain.Name {
		add("announced-foreign-source", pid(p))
	}
	if got := ev.Chain.NextSeqSend(p.SourceChain, p.DestinationChain); got != p.Sequence+1 {
		add("next-sequence-not-advanced-by-one", fmt.Sprintf("%d after sending %d", got, p.Sequence))
	}
	if !bytes.Equal(ev.Chain.Commitment(p.SourceChain, p.DestinationChain, p.Sequence), sha(p.Data)) {
		add("commitment-missing-or-not-binding", pid(p))
	}
	// exactly one commitment key appeared
	added := 0
	for _, d := range diff {
		if strings.HasPrefix(d, "+ \"tibc|commitments/") {
			added++
		}
		if strings.HasPrefix(d, "- \"tibc|commitments/") || strings.HasPrefix(d, "~ \"tibc|commitments/") {
			add("send-touched-another-commitment", d)
		}
	}
	if added != 1 {
		add("send-did-not-leave-exactly-one-commitment", fmt.Sprint(diff))
	}
	return fs
}

func filterClients(kvs []world.KV) []world.KV {
	var out []world.KV
	for _, kv := range kvs {
		if !skipClients(kv) {
			out = append(out, kv)
		}
	}
	return out
}

// SendInvariant: in every state NextSequenceSend(src,dst) = announced packets on the pair + 1.
func SendInvariant(m *PktModel, w *world.World, st PState) []explore.Finding {
	if !m.Props["C09"] {
		return nil
	}
	var fs []explore.Finding
	cnt := map[string]uint64{}
	for _, r := range st.G.Pkts {
		cnt[r.P.SourceChain+">"+r.P.DestinationChain]++
	}
	for _, s := range w.Chains {
		for _, d := range append(append([]string{}, m.Names...), "zchainzzz") {
			if got := s.NextSeqSend(s.Name, d); got != cnt[s.Name+">"+d]+1 {
				fs = append(fs, explore.Finding{Property: "C09", Signature: "next-sequence-differs-from-successful-sends",
					Detail: fmt.Sprintf("%s>%s next=%d sends=%d", s.Name, d, got, cnt[s.Name+">"+d])})
			}
		}
	}
	return fs
}

func actions(fs ...func(m *PktModel, w *world.World, g Ghost) []UserAction) func(m *PktModel, w *world.World, g Ghost) []UserAction {
	return func(m *PktModel, w *world.World, g Ghost) []UserAction {
		var out []UserAction
		for _, f := range fs {
			out = append(out, f(m, w, g)...)
		}
		return out
	}
}

// CheckC09: gap-free sequences, one binding commitment, all-or-nothing sends.
func modelsC09(tier string) ([]*PktModel, []int) {
	props := map[string]bool{"C09": true}
	maxTx := 3
	depth := 6
	if tier == "thorough" {
		maxTx, depth = 4, 10
	}
	m := &PktModel{Name: "nft+mock-sends", Names: []string{A, B, C}, Props: props,
		Setup: func(w *world.World) {
			setRules(w, B, []string{"*,*,*"})
			a := w.C(A)
			if r := MintNative(w, a, User(a, 1), "cls", "tok1"); !r.OK() {
				panic(r.Log)
			}
			if r := w.Tx(a, User(a, 1), nftMint("tok2", "cls", User(a, 1))); !r.OK() {
				panic(r.Log)
			}
			u1 := User(a, 1)
			if r := w.Tx(a, u1, mttypes.NewMsgIssueDenom("gold", "", u1.Addr.String())); !r.OK() {
				panic(r.Log)
			}
			for d := range mtDenoms(a) {
				if r := w.Tx(a, u1, mttypes.NewMsgMintMT("", d, 5, "data", u1.Addr.String(), u1.Addr.String())); !r.OK() {
					panic(r.Log)
				}
			}
		},
		InitGhost: func(w *world.World, g *Ghost) {
			g.Extra[nftKey(A, "cls|tok1")] = "native:" + A + ":cls|tok1"
			g.Extra[nftKey(A, "cls|tok2")] = "native:" + A + ":cls|tok2"
		},
		Observe: NftObserve,
		UserActions: actions(
			MockSendActions([]MockSend{
				{Label: "mockAB", Src: A, Dst: B, Data: "m", Max: 2},
				{Label: "mockAC", Src: A, Dst: C, Relay: B, Data: "n", Max: 1},
				{Label: "mockBA", Src: B, Dst: A, Data: "o", Max: 1},
			}),
			nftOnly(NftScenario{MaxUserTx: maxTx + 2, Receivers: []int{1}}, "tok1"),
			FailingSends),
		StepCheck:  Steps(CoreStepCheck, NftStep, SendStepCheck),
		StateCheck: SendInvariant,
	}
	return []*PktModel{m}, []int{depth}
}

func CheckC09(tier string) int {
	models, depth := modelsC09(tier)

	return RunPkt("C09", tier, models, depth, tierBudget(tier, 100*time.Second, 15*time.Minute), append([]string{
		"sends from two applications (mock port through the packet keeper on a branch written only on success, as a Msg handler would; NFT transfers as real transactions) to two destinations, interleaved with inbound receives and acknowledgements",
		"failing sends: unknown destination, unknown relay chain, destination = self (mock, NFT and MT), sequence ahead / reused, empty data, foreign source, token not owned, class missing, token missing; each must fail and leave the tibc, NFT, MT, nft and mt stores byte-identical",
	}, commonAssumptions...))
}

func init() {
	PktRegistry["C09"] = func(tier string) []*PktModel { m, _ := modelsC09(tier); return m }
}
