package props

import (
	"fmt"
	"os"
	"strings"
	"time"

	sdk "github.com/cosmos/cosmos-sdk/types"

	clienttypes "github.com/bianjieai/tibc-go/modules/tibc/core/02-client/types"
	packettypes "github.com/bianjieai/tibc-go/modules/tibc/core/04-packet/types"
	commitmenttypes "github.com/bianjieai/tibc-go/modules/tibc/core/23-commitment/types"
	host "github.com/bianjieai/tibc-go/modules/tibc/core/24-host"
	"github.com/bianjieai/tibc-go/modules/tibc/core/exported"
	ibctm "github.com/bianjieai/tibc-go/modules/tibc/light-clients/07-tendermint/types"
	bsctypes "github.com/bianjieai/tibc-go/modules/tibc/light-clients/08-bsc/types"
	ethtypes "github.com/bianjieai/tibc-go/modules/tibc/light-clients/09-eth/types"

	"verif/mc/explore"
	"verif/mc/report"
	"verif/mc/world"
)

// CheckC14: expired light clients are frozen out, for every client type.
func CheckC14(tier string) int {
	start := time.Now()
	var findings []explore.Finding
	add := func(sig, detail string, path ...string) {
		for _, f := range findings {
			if f.Signature == sig {
				return
			}
		}
		findings = append(findings, explore.Finding{Property: "C14", Signature: sig, Detail: detail, Path: path})
	}
	evals, expired, active, dontCare := 0, 0, 0, 0
	var samples []any

	// ---- (a) Status grid, direct calls on a real client store
	base := world.NewWorld(world.WorldOpts{Names: []string{A}, NoMesh: true})
	a := base.C(A)
	ck := a.App.TIBCKeeper.ClientKeeper
	periods := []uint64{1, 2, 3600, 1209600}
	subs := []int64{0, 1, 999999999}
	span := int64(2) // boundary offsets -span … +span around the trusting period
	{ // the wide grid costs 1 s: both tiers use it
		span = 6
		periods = append(periods, 4, 5, 7, 59, 60, 61, 600, 86400, 604800, 2592000, 31536000, 1<<31, 1<<32)
		subs = append(subs, 2, 500000000, 999999998)
	}
	T := time.Date(2022, 5, 6, 7, 8, 9, 0, time.UTC)
	for _, kind := range []string{"tendermint", "bsc", "eth"} {
		for _, P := range periods {
			// age offsets in the client's own unit
			var ages []int64
			for d := -span; d <= span; d++ {
				ages = append(ages, int64(P)+d)
			}
			for _, tsub := range subs { // sub-second part of the consensus timestamp (Tendermint only)
				for _, bsub := range subs { // sub-second part of the block time
					var offs []time.Duration
					unit := time.Second
					if kind == "tendermint" {
						unit = time.Nanosecond
						for d := -span; d <= span; d++ {
							offs = append(offs, time.Duration(P)*time.Second+time.Duration(d))
						}
						offs = append(offs, 10*time.Duration(P)*time.Second, time.Duration(P)*time.Second+time.Second, time.Duration(P)*time.Second-time.Second, 0, time.Second)
					} else {
						if tsub != 0 {
							continue
						}
						for _, ag := range ages {
							offs = append(offs, time.Duration(ag)*time.Second+time.Duration(bsub))
						}
						offs = append(offs, 10*time.Duration(P)*time.Second+time.Duration(bsub), time.Duration(bsub), (1000000000+time.Duration(P))*time.Second+time.Duration(bsub))
					}
					consT := T.Add(time.Duration(tsub))
					for _, off := range offs {
						now := consT.Add(off)
						if kind == "tendermint" && int64(now.Nanosecond()) != (tsub+int64(off))%1000000000 {
							_ = bsub
						}
						ctx := a.ReadCtx(now)
						name := "clientxxx"
						var cs exported.ClientState
						h := clienttypes.NewHeight(0, 100)
						switch kind {
						case "tendermint":
							cs = ibctm.NewClientState("tmchain", ibctm.DefaultTrustLevel, time.Duration(P)*time.Second, 3*time.Duration(P)*time.Second, 10*time.Second,
								h, commitmenttypes.GetSDKSpecs(), commitmenttypes.MerklePrefix{KeyPrefix: []byte("tibc")}, 0)
							ck.SetClientConsensusState(ctx, name, h, &ibctm.ConsensusState{Timestamp: consT, Root: commitmenttypes.NewMerkleRoot([]byte("r")), NextValidatorsHash: make([]byte, 32)})
						case "bsc":
							cs = &bsctypes.ClientState{Header: bsctypes.Header{Height: h}, ChainId: 56, Epoch: 200, BlockInteval: 3, TrustingPeriod: P}
							ck.SetClientConsensusState(ctx, name, h, &bsctypes.ConsensusState{Timestamp: uint64(T.Unix()), Number: h, Root: make([]byte, 32)})
						case "eth":
							cs = &ethtypes.ClientState{Header: ethtypes.Header{Height: h}, ChainId: 1, TrustingPeriod: P}
							ck.SetClientConsensusState(ctx, name, h, &ethtypes.ConsensusState{Timestamp: uint64(T.Unix()), Number: h, Root: make([]byte, 32)})
						}
						ck.SetClientState(ctx, name, cs)
						got := cs.Status(ctx, ck.ClientStore(ctx, name), a.App.AppCodec())
						evals++
						// age in the client's own unit
						var age, period int64
						if kind == "tendermint" {
							age, period = int64(now.Sub(consT)), int64(P)*int64(time.Second)
						} else {
							age, period = now.Unix()-T.Unix(), int64(P)
						}
						_ = unit
						switch {
						case age == period:
							dontCare++
						case age > period:
							expired++
							if got != exported.Expired {
								add(kind+":expired-client-reports-"+string(got), fmt.Sprintf("trusting period %ds, age %d (own unit), block time sub-second %dns: status %s", P, age, now.Nanosecond(), got), kind)
							}
						default:
							active++
							if got != exported.Active {
								add(kind+":client-inside-trusting-period-reports-"+string(got), fmt.Sprintf("trusting period %ds, age %d (own unit), block time sub-second %dns: status %s", P, age, now.Nanosecond(), got), kind)
							}
						}
						if len(samples) < 3 {
							samples = append(samples, fmt.Sprintf("status %s period=%ds age=%d sub-second=%d", kind, P, age, now.Nanosecond()))
						}
					}
				}
			}
		}
	}

	// ---- (b) message level, Tendermint: valid messages obtained before the time jump must bounce once the client is expired
	msgEvals := 0
	for _, jump := range []string{"inside", "past"} {
		w := world.NewWorld(world.WorldOpts{Names: []string{A, B}})
		ca, cb := w.C(A), w.C(B)
		// traffic A->B: packet 1 delivered+acked+cleaned later, packet 2 in flight; B->A packet delivered on A so that an ack for it waits on A
		p1 := packettypes.NewPacket([]byte("one"), 1, A, B, "", "tibcmock")
		must(w.SendMock(ca, p1))
		r, err := w.RelayRecv(p1, cb)
		if err != nil || !r.OK() {
			panic(fmt.Sprint("setup recv ", err, r.Log))
		}
		if r, err := w.RelayAck(p1, []byte("mock acknowledgement"), ca); err != nil || !r.OK() {
			panic(fmt.Sprint("setup ack ", err, r.Log))
		}
		p2 := packettypes.NewPacket([]byte("two"), 2, A, B, "", "tibcmock")
		must(w.SendMock(ca, p2))
		q1 := packettypes.NewPacket([]byte("back"), 1, B, A, "", "tibcmock")
		must(w.SendMock(cb, q1))
		if r, err := w.RelayRecv(q1, ca); err != nil || !r.OK() {
			panic(fmt.Sprint("setup recv2 ", err, r.Log))
		}
		if r := w.Tx(ca, ca.Relayer(), &packettypes.MsgCleanPacket{CleanPacket: packettypes.CleanPacket{Sequence: 1, SourceChain: A, DestinationChain: B}, Signer: ca.Relayer().Addr.String()}); !r.OK() {
			panic("setup clean " + r.Log)
		}
		// B's client of A learns A's newest header now; all proofs are taken at that height
		if r := w.UpdateClient(cb, ca); !r.OK() {
			panic(r.Log)
		}
		recv, _ := w.RecvMsg(p2, ca, cb.Relayer().Addr)
		ack, _ := w.AckMsg(q1, []byte("mock acknowledgement"), ca, cb.Relayer().Addr)
		clean, _ := w.RecvCleanMsg(packettypes.CleanPacket{Sequence: 1, SourceChain: A, DestinationChain: B}, ca, cb.Relayer().Addr)
		// time passes on both chains
		d := world.TrustingPeriod - 10*time.Minute
		if jump == "past" {
			d = world.TrustingPeriod + 10*time.Minute
		}
		w.Now = w.Now.Add(d)
		ca.CommitEmpty(w.Tick())
		ca.CommitEmpty(w.Tick())
		cb.CommitEmpty(w.Tick())
		status := cb.ClientStatus(A)
		latest, _ := w.ClientLatest(cb, ca)
		hdr := ca.Header(ca.Height(), latest)
		upd, _ := clienttypes.NewMsgUpdateClient(A, hdr, cb.Relayer().Addr)
		msgs := map[string]sdk.Msg{"MsgRecvPacket": recv, "MsgAcknowledgement": ack, "MsgRecvCleanPacket": clean, "MsgUpdateClient": upd}
		for _, name := range []string{"MsgRecvPacket", "MsgAcknowledgement", "MsgRecvCleanPacket", "MsgUpdateClient"} {
			st := w.Freeze()
			res := w.Tx(cb, cb.Relayer(), msgs[name])
			w.Mount(st)
			msgEvals++
			if jump == "inside" {
				if status != exported.Active {
					add("tendermint:client-inside-trusting-period-reports-"+string(status), "message-level scenario")
				}
				if !res.OK() {
					add("harness-control-failed:"+name, "valid "+name+" through an Active client was refused: "+res.Log)
				}
			} else {
				if status != exported.Expired {
					add("tendermint:expired-client-reports-"+string(status), "message-level scenario")
				}
				if res.OK() {
					add("tendermint:expired-client-used-for-"+name, "an otherwise valid "+name+" proven through a client whose newest state is older than the trusting period was accepted", "A,B mesh", "time jump trusting period + 10min", name)
				}
			}
		}
	}

	// ---- (c) message level, ETH and BSC: MsgRecvPacket proven by a canonical MPT proof through an installed client
	for _, kind := range []string{"eth", "bsc"} {
		for _, jump := range []string{"inside", "past"} {
			w := world.NewWorld(world.WorldOpts{Names: []string{A}, NoMesh: true})
			ca := w.C(A)
			name := "evmchaineee"
			p := packettypes.NewPacket([]byte("from-evm"), 1, name, A, "", "tibcmock")
			ew := NewEthWorld(map[string][]byte{host.PacketCommitmentPath(name, A, 1): sha(p.Data)})
			const P = 3600
			consTime := uint64(w.Now.Unix())
			ctx := ca.Ctx()
			k := ca.App.TIBCKeeper.ClientKeeper
			h := clienttypes.NewHeight(0, 100)
			latest := clienttypes.NewHeight(0, 100)
			switch kind {
			case "eth":
				k.SetClientState(ctx, name, &ethtypes.ClientState{Header: ethtypes.Header{Height: latest}, ChainId: 1, ContractAddress: ew.Contract.Bytes(), TrustingPeriod: P})
				k.SetClientConsensusState(ctx, name, h, &ethtypes.ConsensusState{Timestamp: consTime, Number: h, Root: ew.Root.Bytes()})
			case "bsc":
				latest = clienttypes.NewHeight(0, 101) // no validators: delay 2*0/3+1 = 1 block
				k.SetClientState(ctx, name, &bsctypes.ClientState{Header: bsctypes.Header{Height: latest}, ChainId: 56, Epoch: 200, BlockInteval: 3, ContractAddress: ew.Contract.Bytes(), TrustingPeriod: P})
				k.SetClientConsensusState(ctx, name, h, &bsctypes.ConsensusState{Timestamp: consTime, Number: h, Root: ew.Root.Bytes()})
				k.SetClientConsensusState(ctx, name, latest, &bsctypes.ConsensusState{Timestamp: consTime, Number: latest, Root: ew.Root.Bytes()})
			}
			ca.CommitEmpty(w.Tick())
			d := time.Duration(P-600) * time.Second
			if jump == "past" {
				d = time.Duration(P+600)*time.Second + 500*time.Millisecond
			}
			w.Now = w.Now.Add(d)
			ca.CommitEmpty(w.Tick())
			status := ca.ClientStatus(name)
			msg := &packettypes.MsgRecvPacket{Packet: p, ProofCommitment: ew.Proof([]byte(host.PacketCommitmentPath(name, A, 1))).JSON(), ProofHeight: h, Signer: ca.Relayer().Addr.String()}
			res := w.Tx(ca, ca.Relayer(), msg)
			msgEvals++
			if jump == "inside" {
				if !res.OK() {
					add("harness-control-failed:"+kind+":MsgRecvPacket", "valid MsgRecvPacket through an Active "+kind+" client was refused: "+res.Log)
				}
			} else {
				if status != exported.Expired {
					add(kind+":expired-client-reports-"+string(status), "message-level scenario (block time with 0.5 s sub-second part)")
				}
				if res.OK() {
					add(kind+":expired-client-used-for-MsgRecvPacket", "an otherwise valid MsgRecvPacket proven through an expired "+kind+" client was accepted", kind, "time jump trusting period + 10min")
				}
			}
		}
	}
	// ---- the newest trusted state after a header update is the header's own time: BSC and ETH clients are created, given
	// one valid header (delivered late for ETH), and their status is read on both sides of header time + trusting period;
	// the next header must be accepted before and refused after that moment
	{
		const P = 1000
		w := world.NewWorld(world.WorldOpts{Names: []string{A}, NoMesh: true})
		c := w.C(A)
		ck := c.App.TIBCKeeper.ClientKeeper
		prev := ethtypes.SealCheck
		ethtypes.SealCheck = false
		type upd struct {
			kind                string
			headerTime          uint64
			create, first, next func(ctx sdk.Context) error
		}
		sc := bscScenario{N: 3, Epoch: 4}
		gen, vals := sc.genesis()
		var vb [][]byte
		for _, v := range sortedAddrs(vals) {
			vb = append(vb, v.Bytes())
		}
		pickValid := func(st bscState) bscSpec {
			for _, sp := range sc.menu(st) {
				if st.Ghost.expect(sp) && !strings.Contains(sp.Label, "corrupted") {
					return sp
				}
			}
			panic("no valid BSC header in the menu")
		}
		st0 := bscState{Ghost: bscGhost{Number: gen.Height.RevisionHeight, Vals: vals, Pending: vals, Signers: map[uint64]int{}, Epoch: sc.Epoch}}
		s1 := pickValid(st0)
		h1 := s1.build(gen)
		st1 := bscState{Hist: []bscSpec{s1}, Ghost: st0.Ghost.apply(s1)}
		h2 := pickValid(st1).build(*h1)
		eg := ethGenesis()
		e1 := ethChild(eg, 13, "n0", "0")
		e2 := ethChild(e1, 13, "n1", "1")
		cases := []upd{
			{"bsc", h1.Time,
				func(ctx sdk.Context) error {
					return ck.CreateClient(ctx, "bscchainb", &bsctypes.ClientState{Header: gen, ChainId: bscChainID, Epoch: sc.Epoch, BlockInteval: 3, Validators: vb, ContractAddress: make([]byte, 20), TrustingPeriod: P},
						&bsctypes.ConsensusState{Timestamp: gen.Time, Number: gen.Height, Root: gen.Root})
				},
				func(ctx sdk.Context) error { return ck.UpdateClient(ctx, "bscchainb", h1) },
				func(ctx sdk.Context) error { return ck.UpdateClient(ctx, "bscchainb", h2) }},
			{"eth", e1.Time,
				func(ctx sdk.Context) error {
					gh := toRepoHeader(eg)
					return ck.CreateClient(ctx, "ethchaine", &ethtypes.ClientState{Header: *gh, ChainId: 1, ContractAddress: make([]byte, 20), TrustingPeriod: P},
						&ethtypes.ConsensusState{Timestamp: eg.Time, Number: gh.Height, Root: eg.Root[:]})
				},
				func(ctx sdk.Context) error { return ck.UpdateClient(ctx, "ethchaine", toRepoHeader(e1)) },
				func(ctx sdk.Context) error { return ck.UpdateClient(ctx, "ethchaine", toRepoHeader(e2)) }},
		}
		names := map[string]string{"bsc": "bscchainb", "eth": "ethchaine"}
		for _, u := range cases {
			// the header is delivered 500 s after its own timestamp (inside the trusting period of the trusted header)
			ctx := c.ReadCtx(time.Unix(int64(u.headerTime)+500, 0))
			must(u.create(ctx))
			if err := u.first(ctx); err != nil {
				add("harness-control-failed:first-"+u.kind+"-header", err.Error())
				continue
			}
			for _, off := range []int64{-2, -1, 1, 2, 400, 499, 501, 503} {
				at := time.Unix(int64(u.headerTime)+P+off, 0)
				cctx, _ := ctx.WithBlockTime(at).CacheContext()
				cs, _ := ck.GetClientState(cctx, names[u.kind])
				got := cs.Status(cctx, ck.ClientStore(cctx, names[u.kind]), c.App.AppCodec())
				err := u.next(cctx)
				msgEvals += 2
				where := fmt.Sprintf("trusting period %d s, newest header time t, delivered at t+500: block time t+%d", P, P+off)
				if off < 0 {
					if got != exported.Active {
						add(u.kind+":client-inside-trusting-period-reports-"+string(got)+":after-header-update", where, u.kind, where)
					}
					if err != nil {
						add(u.kind+":header-refused-inside-trusting-period:after-header-update", where+": "+err.Error(), u.kind, where)
					}
				} else {
					if got != exported.Expired {
						add(u.kind+":expired-client-reports-"+string(got)+":after-header-update", where, u.kind, where)
					}
					if err == nil {
						add(u.kind+":expired-client-accepts-header:after-header-update", where, u.kind, where)
					}
				}
			}
		}
		ethtypes.SealCheck = prev
	}
	cov := map[string]any{
		"evaluations": evals + msgEvals, "distinct_nontrivial": expired + active,
		"rule":   "status grid: every (client type, trusting period, age offset, sub-second parts) combination is evaluated once; non-trivial = points strictly inside or strictly past the trusting period (both judged); age = period is don't-care",
		"states": 3*len(periods) + 8, "transitions": evals + msgEvals, "traces_validated_against_impl": evals + msgEvals,
		"status_points": evals, "expired_points": expired, "active_points": active, "dont_care_points": dontCare, "message_level_submissions": msgEvals,
		"samples": samples, "exhaustive": true,
		"bounds": fmt.Sprintf("trusting periods %v s; ages period-%d..period+%d units, 0, 10*period, 1e9 s+period; sub-second parts %v ns; client types tendermint (ns), bsc and eth (whole seconds); message level: MsgRecvPacket/MsgAcknowledgement/MsgRecvCleanPacket/MsgUpdateClient through a Tendermint client 10 minutes inside and 10 minutes past the trusting period, MsgRecvPacket through ETH and BSC clients with canonical MPT proofs; BSC and ETH clients after one real header update (ETH delivered 500 s late): status and the next header at header time + period -2..+503 s", periods, span, span, subs),
	}
	fmt.Fprintf(os.Stderr, "[C14] status points=%d (expired %d, active %d, dont-care %d) message-level=%d (%.1fs)\n", evals, expired, active, dontCare, msgEvals, time.Since(start).Seconds())
	return report.Finish("C14", tier, start, "model_checking", cov, []string{
		"age is measured in the client's own unit: nanoseconds for Tendermint, whole seconds (block time's Unix seconds minus the consensus timestamp) for BSC and ETH; age > period must report Expired, age < period Active",
		"message level: the messages are valid in every other respect (proofs taken before the time jump at a height the client knows, registered relayer); the 'inside' run is the control that they are accepted through an Active client",
	}, findings)
}

func must(err error) {
	if err != nil {
		panic(err)
	}
}
