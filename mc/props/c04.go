package props

import (
	"time"

	"verif/mc/world"
)

// nft3 builds the NFT scenario on A,B,C: native class cls/tok1 on A owned by A's user 1; B's routing rules allow everything.
func nft3(name string, props map[string]bool, sc NftScenario, probe string) *PktModel {
	return &PktModel{Name: name, Names: []string{A, B, C}, Props: props, ProbeMode: probe,
		Setup: func(w *world.World) {
			for _, n := range []string{A, B, C} {
				setRules(w, n, []string{"*,*,*"})
			}
			a := w.C(A)
			if r := MintNative(w, a, User(a, 1), "cls", "tok1"); !r.OK() {
				panic(r.Log)
			}
		},
		InitGhost: func(w *world.World, g *Ghost) {
			g.Extra[nftKey(A, "cls|tok1")] = "native:" + A + ":cls|tok1"
		},
		UserActions: sc.Actions, Observe: NftObserve,
		StepCheck:  Steps(CoreStepCheck, NftStep),
		StateCheck: NftInvariant,
	}
}

// CheckC04: NFT transfers never duplicate an NFT or release escrow to the wrong claimant.
func modelsC04(tier string) ([]*PktModel, []int) {
	props := map[string]bool{"C04": true}
	adv := []string{"cls", "nft/" + A + "/" + B + "/cls", "nft/" + A + "/" + C + "/cls", "nftcls", "nft/x/y", "nftx/" + A + "/" + B + "/cls", "nftx/" + A + "/" + C + "/cls"}
	models := []*PktModel{
		nft3("nft3-honest", props, NftScenario{MaxUserTx: 4, Receivers: []int{1}, BadReceiver: true}, ""),
		nft3("nft3-adversarial-class", props, NftScenario{MaxUserTx: 4, Receivers: []int{1}, AdvClasses: adv, AdvChains: []string{B}, MaxAdv: 1, MintInto: true}, ""),
		// every held token is also offered for transfer by the user who does not own it
		nft3("nft3-not-owner", props, NftScenario{MaxUserTx: 3, Receivers: []int{1}, Thieves: true}, ""),
		// a native class with the same name and token id on the relay chain, transfers also through relay chains
		nft3("nft3-same-class-name-on-relay-chain", props, NftScenario{MaxUserTx: 4, Receivers: []int{1}, Relays: true, AdvClasses: []string{"cls"}, AdvChains: []string{B}, MaxAdv: 1}, ""),
	}
	// relay chains that refuse: every chain's rules are empty, transfers are also offered through a relay chain (the
	// refusal's error acknowledgement refunds the sender; nothing may reach the destination)
	refusing := nft3("nft3-relay-chains-refuse", props, NftScenario{MaxUserTx: 3, Receivers: []int{1}, Relays: true}, "")
	honestSetup := refusing.Setup
	refusing.Setup = func(w *world.World) {
		honestSetup(w)
		for _, n := range []string{A, B, C} {
			setRules(w, n, []string{})
		}
	}
	models = append(models, refusing)
	depth := []int{9, 8, 7, 9, 8}
	if tier == "thorough" {
		// the quick scenarios explored deeper, then the same two with a wider alphabet (second receiver, relay routes,
		// burns, adversarial classes on two chains)
		models = append(models,
			nft3("nft3-honest-wide", props, NftScenario{MaxUserTx: 5, Receivers: []int{1, 2}, BadReceiver: true, Relays: true, Burns: true}, ""),
			nft3("nft3-adversarial-class-wide", props, NftScenario{MaxUserTx: 5, Receivers: []int{1}, Relays: true, AdvClasses: adv, AdvChains: []string{B, C}, MaxAdv: 2, MintInto: true}, ""),
		)
		depth = []int{14, 12, 9, 10, 10, 10, 8}
	}
	return models, depth
}

func CheckC04(tier string) int {
	models, depth := modelsC04(tier)

	return RunPkt("C04", tier, models, depth, tierBudget(tier, 100*time.Second, 25*time.Minute), append([]string{
		"token identities are assigned by history (mint -> identity; send -> the packet carries the identity of what was locked or burned; delivery -> what the receiver newly owns inherits the packet's identity), never by parsing class paths",
		"invariant in every state: each native identity has exactly one live holder (a user-held instance on some chain or a packet in flight); a delivery or refund that takes an instance out of escrow must carry that instance's own identity",
		"user alphabet: MsgNftTransfer of every user-held instance to every other chain (optionally via the third chain, optionally to an invalid receiver), MsgIssueDenom+MsgMintNFT of adversarial native classes accepted by the NFT module, MsgBurnNFT (thorough); bounded number of user transactions",
	}, commonAssumptions...))
}

func init() {
	PktRegistry["C04"] = func(tier string) []*PktModel { m, _ := modelsC04(tier); return m }
}
