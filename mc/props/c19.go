package props

import (
	"bytes"
	"errors"
	"fmt"
	"os"
	"strings"
	"sync"
	"time"

	sdk "github.com/cosmos/cosmos-sdk/types"
	mtexported "mods.irisnet.org/modules/mt/exported"
	mttypes "mods.irisnet.org/modules/mt/types"
	nftexported "mods.irisnet.org/modules/nft/exported"
	nfttypes "mods.irisnet.org/modules/nft/types"

	mtkeeper "github.com/bianjieai/tibc-go/modules/tibc/apps/mt_transfer/keeper"
	mttransfer "github.com/bianjieai/tibc-go/modules/tibc/apps/mt_transfer/types"
	nftkeeper "github.com/bianjieai/tibc-go/modules/tibc/apps/nft_transfer/keeper"
	nfttransfer "github.com/bianjieai/tibc-go/modules/tibc/apps/nft_transfer/types"
	packettypes "github.com/bianjieai/tibc-go/modules/tibc/core/04-packet/types"

	"verif/mc/explore"
	"verif/mc/world"
)

// FaultPlan drives the token-keeper decorators installed through the verif hook: while Active, the FailAt-th
// token-module call (counted over both modules) returns an injected error.
type FaultPlan struct {
	mu     sync.Mutex
	Active bool
	FailAt int
	Calls  int
	Names  []string
}

// Plan is the process-wide fault plan (fault enumeration is run single-threaded).
var Plan = &FaultPlan{}

func (p *FaultPlan) hit(name string) error {
	p.mu.Lock()
	defer p.mu.Unlock()
	if !p.Active {
		return nil
	}
	p.Calls++
	p.Names = append(p.Names, name)
	if p.Calls == p.FailAt {
		return errors.New("injected token-keeper fault at " + name)
	}
	return nil
}

func (p *FaultPlan) arm(k int) {
	p.mu.Lock()
	p.Active, p.FailAt, p.Calls, p.Names = true, k, 0, nil
	p.mu.Unlock()
}

func (p *FaultPlan) disarm() (calls int, names []string) {
	p.mu.Lock()
	defer p.mu.Unlock()
	p.Active = false
	return p.Calls, p.Names
}

type faultNft struct{ in nfttransfer.NftKeeper }

func (f faultNft) MintNFT(ctx sdk.Context, denomID, tokenID, tokenNm, tokenURI, tokenData string, owner sdk.AccAddress) error {
	if err := Plan.hit("nft.MintNFT"); err != nil {
		return err
	}
	return f.in.MintNFT(ctx, denomID, tokenID, tokenNm, tokenURI, tokenData, owner)
}
func (f faultNft) BurnNFT(ctx sdk.Context, denomID, tokenID string, owner sdk.AccAddress) error {
	if err := Plan.hit("nft.BurnNFT"); err != nil {
		return err
	}
	return f.in.BurnNFT(ctx, denomID, tokenID, owner)
}
func (f faultNft) GetNFT(ctx sdk.Context, denomID, tokenID string) (nftexported.NFT, error) {
	return f.in.GetNFT(ctx, denomID, tokenID)
}
func (f faultNft) TransferOwner(ctx sdk.Context, denomID, tokenID, tokenNm, tokenURI, tokenData string, srcOwner, dstOwner sdk.AccAddress) error {
	if err := Plan.hit("nft.TransferOwner"); err != nil {
		return err
	}
	return f.in.TransferOwner(ctx, denomID, tokenID, tokenNm, tokenURI, tokenData, srcOwner, dstOwner)
}
func (f faultNft) GetDenom(ctx sdk.Context, id string) (nfttypes.Denom, bool) {
	return f.in.GetDenom(ctx, id)
}
func (f faultNft) IssueDenom(ctx sdk.Context, id, name, schema, symbol string, creator sdk.AccAddress, mintRestricted, updateRestricted bool) error {
	if err := Plan.hit("nft.IssueDenom"); err != nil {
		return err
	}
	return f.in.IssueDenom(ctx, id, name, schema, symbol, creator, mintRestricted, updateRestricted)
}

type faultMt struct{ in mttransfer.MtKeeper }

func (f faultMt) IssueDenom(ctx sdk.Context, id, name string, sender sdk.AccAddress, data []byte) mttypes.Denom {
	return f.in.IssueDenom(ctx, id, name, sender, data)
}
func (f faultMt) IssueMT(ctx sdk.Context, denomID, mtID string, amount uint64, data []byte, recipient sdk.AccAddress) (mttypes.MT, error) {
	if err := Plan.hit("mt.IssueMT"); err != nil {
		return mttypes.MT{}, err
	}
	return f.in.IssueMT(ctx, denomID, mtID, amount, data, recipient)
}
func (f faultMt) MintMT(ctx sdk.Context, denomID, mtID string, amount uint64, recipient sdk.AccAddress) error {
	if err := Plan.hit("mt.MintMT"); err != nil {
		return err
	}
	return f.in.MintMT(ctx, denomID, mtID, amount, recipient)
}
func (f faultMt) TransferOwner(ctx sdk.Context, denomID, mtID string, amount uint64, srcOwner, dstOwner sdk.AccAddress) error {
	if err := Plan.hit("mt.TransferOwner"); err != nil {
		return err
	}
	return f.in.TransferOwner(ctx, denomID, mtID, amount, srcOwner, dstOwner)
}
func (f faultMt) BurnMT(ctx sdk.Context, denomID, mtID string, amount uint64, owner sdk.AccAddress) error {
	if err := Plan.hit("mt.BurnMT"); err != nil {
		return err
	}
	return f.in.BurnMT(ctx, denomID, mtID, amount, owner)
}
func (f faultMt) HasMT(ctx sdk.Context, denomID, mtID string) bool {
	return f.in.HasMT(ctx, denomID, mtID)
}
func (f faultMt) GetMT(ctx sdk.Context, denomID, mtID string) (mtexported.MT, error) {
	return f.in.GetMT(ctx, denomID, mtID)
}
func (f faultMt) GetDenom(ctx sdk.Context, id string) (mttypes.Denom, bool) {
	return f.in.GetDenom(ctx, id)
}

func init() {
	// decorators are pure delegation unless the plan is armed
	nftkeeper.TokenKeeperWrapper = func(k nfttransfer.NftKeeper) nfttransfer.NftKeeper { return faultNft{k} }
	mtkeeper.TokenKeeperWrapper = func(k mttransfer.MtKeeper) mttransfer.MtKeeper { return faultMt{k} }
}

// ErrorAckStepCheck: when a delivered packet is answered with an error acknowledgement, the receiving chain's token
// and transfer stores are byte-identical and the tibc diff is exactly {receipt, acknowledgement, max-ack sequence}.
func ErrorAckStepCheck(m *PktModel, w *world.World, ev *StepEvent) []explore.Finding {
	if !m.Props["C19"] || ev.Before == nil || ev.After == nil || ev.Chain == nil {
		return nil
	}
	var fs []explore.Finding
	add := func(sig, detail string) {
		fs = append(fs, explore.Finding{Property: "C19", Signature: sig, Detail: detail})
	}
	ok := ev.Err == nil && ev.Res.OK()
	diff := world.DiffKVs(filterClients(ev.Before), filterClients(ev.After))
	if !ok {
		if len(diff) > 0 {
			add("failed-message-changed-state:"+ev.Kind, fmt.Sprintf("%s: %v", ev.Label, diff))
		}
		return fs
	}
	if ev.Kind != "recv" {
		return fs
	}
	id := pid(ev.Pkt)
	ack := mustHex(ev.GAfter.AckBytes[id+"@"+ev.Chain.Name])
	if !isErrorAck(ack) {
		return fs
	}
	// "records exactly the receipt and the acknowledgement": both must be there
	if !ev.Chain.HasReceipt(ev.Pkt.SourceChain, ev.Pkt.DestinationChain, ev.Pkt.Sequence) {
		add("error-ack-without-receipt", id+" on "+ev.Chain.Name)
	}
	if h, ok := ev.Chain.AckHash(ev.Pkt.SourceChain, ev.Pkt.DestinationChain, ev.Pkt.Sequence); !ok || !bytes.Equal(h, sha(ack)) {
		add("error-ack-not-stored", id+" on "+ev.Chain.Name)
	}
	ch := ev.Pkt.SourceChain + "/" + ev.Pkt.DestinationChain
	allowed := map[string]bool{
		fmt.Sprintf("+ \"tibc|receipts/%s/sequences/%d\"", ch, ev.Pkt.Sequence): true,
		fmt.Sprintf("+ \"tibc|acks/%s/sequences/%d\"", ch, ev.Pkt.Sequence):     true,
	}
	for _, d := range diff {
		head := strings.SplitN(d, " = ", 2)[0]
		head = strings.SplitN(head, ": ", 2)[0]
		if allowed[head] || strings.Contains(head, "\"tibc|maxAckSeq/"+ch+"\"") {
			continue
		}
		where := "destination"
		if ev.Pkt.RelayChain == ev.Chain.Name {
			where = "relay-chain"
		}
		store := strings.SplitN(strings.TrimLeft(head, "+-~ \""), "|", 2)[0]
		add("error-ack-left-other-effects:"+where+":store-"+store, fmt.Sprintf("%s answered with an error acknowledgement but also changed %s", id, d))
	}
	return fs
}

// CheckC19: failed messages leave no trace; error acknowledgements leave no token effects.
func modelsC19(tier string) ([]*PktModel, []int) {
	props := map[string]bool{"C19": true}
	// ---- part 1 and 2: explored graphs with real-transaction probes and the error-ack oracle
	nft := nft3("nft3-tx-probes", props, NftScenario{MaxUserTx: 2, Receivers: []int{1}, BadReceiver: true, Relays: true}, "tx")
	nft.StepCheck = Steps(CoreStepCheck, NftStep, ErrorAckStepCheck)
	nft.Setup = func(w *world.World) {
		setRules(w, B, []string{A + "," + C + ",NFT"}) // B relays A->C only: C->A via B is answered with an error ack on B
		setRules(w, C, []string{"*,*,*"})
		a := w.C(A)
		if r := MintNative(w, a, User(a, 1), "cls", "tok1"); !r.OK() {
			panic(r.Log)
		}
	}
	mt := mt3("mt2-tx-probes", props, MtScenario{MaxUserTx: 2, Supply: 3, Amounts: []uint64{1, 4}, Receivers: []int{1}, BadReceiver: true}, []string{A, B})
	mt.ProbeMode = "tx"
	mt.StepCheck = Steps(CoreStepCheck, MtStep, ErrorAckStepCheck)
	// mock packets over three chains: C->A through B is refused by B's rules (error acknowledgement written by the relay chain)
	relay := core3("core3-relay-refusal", props, "")
	relay.StepCheck = Steps(CoreStepCheck, ErrorAckStepCheck)
	unknown := core3UnknownDestination("core3-unknown-destination", props, "")
	unknown.StepCheck = Steps(CoreStepCheck, ErrorAckStepCheck)
	depth := []int{4, 4, 5, 5}
	if tier == "thorough" {
		depth = []int{7, 6, 8, 7}
	}
	// probes are expensive as real transactions: probe the states at even depths only in the quick tier
	if tier != "thorough" {
		nft.ProbeFilter = func(d int) bool { return d%2 == 0 }
		mt.ProbeFilter = func(d int) bool { return d%2 == 0 }
	}
	return []*PktModel{nft, mt, relay, unknown}, depth
}

func CheckC19(tier string) int {
	start := time.Now()
	models, depth := modelsC19(tier)
	extra := faultEnumeration(tier)
	fmt.Fprintf(os.Stderr, "[C19] fault enumeration done: %d findings (%.1fs)\n", len(extra), time.Since(start).Seconds())
	return RunPktExtra("C19", tier, models, depth, tierBudget(tier, 110*time.Second, 15*time.Minute), append([]string{
		"first sentence: every message of the adversarial probe menus (receive / acknowledgement variants of every known packet on every chain), every failing user transaction and every failing relayer step is delivered as a real signed transaction in its own block; if the result code is non-zero the tibc, NFT, MT, nft and mt stores must be byte-identical before and after",
		"second sentence: for every delivered packet answered with an error acknowledgement (invalid receiver, relay-chain whitelist refusal, injected failures) the receiving chain's nft, mt and transfer stores are byte-identical and the tibc diff is exactly {receipt, acknowledgement, max-ack sequence}",
		"fault enumeration (verif hook): for both token modules and both directions, the k-th token-module call inside OnRecvPacket fails, for every k up to the number of calls the callback makes; likewise inside the refund of an error acknowledgement and inside the send",
	}, commonAssumptions...), extra)
}

// faultEnumeration fails every token-keeper call site in turn (single-threaded, global plan).
func faultEnumeration(tier string) []explore.Finding {
	var fs []explore.Finding
	add := func(path []string, sig, detail string) {
		for _, f := range fs {
			if f.Signature == sig {
				return
			}
		}
		fs = append(fs, explore.Finding{Property: "C19", Signature: sig, Detail: detail, Path: path})
	}
	executions, injected := 0, 0
	var sites []string
	defer func() {
		ExtraCoverage["fault_enumeration"] = map[string]any{"executions": executions, "faults_injected": injected, "call_sites": sites}
	}()
	note := func(k, calls int, names []string, what string) {
		executions++
		if k <= calls {
			injected++
			sites = append(sites, fmt.Sprintf("%s: call #%d %s", what, k, names[k-1]))
		}
	}
	for _, module := range []string{"NFT", "MT"} {
		for _, dir := range []string{"away", "back"} {
			for _, phase := range []string{"recv", "refund", "send"} {
				for k := 1; k <= 8; k++ {
					w := world.NewWorld(world.WorldOpts{Names: []string{A, B}})
					a, b := w.C(A), w.C(B)
					ua, ub := User(a, 1), User(b, 1)
					// asset on A
					var class, id string
					if module == "NFT" {
						if r := MintNative(w, a, ua, "cls", "tok1"); !r.OK() {
							panic(r.Log)
						}
						class, id = "cls", "tok1"
					} else {
						if r := w.Tx(a, ua, mttypes.NewMsgIssueDenom("gold", "", ua.Addr.String())); !r.OK() {
							panic(r.Log)
						}
						for d := range mtDenoms(a) {
							class = d
						}
						if r := w.Tx(a, ua, mttypes.NewMsgMintMT("", class, 5, "data", ua.Addr.String(), ua.Addr.String())); !r.OK() {
							panic(r.Log)
						}
						for ci := range MtHoldings(a).Supply {
							id = strings.Split(ci, "|")[1]
						}
					}
					cs := c06case{module: module, amount: 2}
					src, dst, usrc, udst := a, b, ua, ub
					if dir == "back" {
						steps := 0
						if ok, err := sendOneHop(w, cs, hop{A, B, ""}, map[string]string{"NFT": "tok1", "MT": ""}[module], ub.Addr.String(), &steps); err != nil || !ok {
							panic(fmt.Sprint("fault set-up: forward hop failed ", err))
						}
						src, dst, usrc, udst = b, a, ub, ua
						// voucher class on B
						if module == "NFT" {
							for ci, o := range NftHoldings(b) {
								if o == ub.Addr.String() {
									class = strings.Split(ci, "|")[0]
								}
							}
						} else {
							for kk := range MtHoldings(b).Bal {
								p := strings.Split(kk, "|")
								if p[2] == ub.Addr.String() {
									class, id = p[0], p[1]
								}
							}
						}
					}
					receiver := udst.Addr.String()
					if phase == "refund" {
						receiver = "not-an-address"
					}
					var msg sdk.Msg
					if module == "NFT" {
						msg = nfttransfer.NewMsgNftTransfer(class, id, usrc.Addr.String(), receiver, dst.Name, "", "")
					} else {
						msg = mttransfer.NewMsgMtTransfer(class, id, usrc.Addr.String(), receiver, dst.Name, "", "", 2)
					}
					path := []string{module, dir, phase, fmt.Sprintf("fail token-keeper call #%d", k)}
					dump := func(c *world.Chain) []world.KV { return filterClients(c.DumpStores(TokenStores...)) }
					if phase == "send" {
						before := dump(src)
						Plan.arm(k)
						res := w.Tx(src, usrc, msg)
						calls, names := Plan.disarm()
						note(k, calls, names, module+" "+dir+" send")
						if k > calls {
							break
						}
						if res.OK() {
							add(path, "send-succeeds-although-token-module-failed", fmt.Sprint(names))
						} else if d := world.DiffKVs(before, dump(src)); len(d) > 0 {
							add(path, "failed-message-changed-state:send-with-injected-fault", fmt.Sprint(d))
						}
						continue
					}
					res := w.Tx(src, usrc, msg)
					if !res.OK() {
						panic("fault set-up: send failed: " + res.Log)
					}
					g := newGhost()
					(&PktModel{}).absorb(&g, src, "", res.Events)
					p := g.Pkts[0].P
					if phase == "recv" {
						if r := w.UpdateClient(dst, src); !r.OK() {
							panic(r.Log)
						}
						m, err := w.RecvMsg(p, src, dst.Relayer().Addr)
						must(err)
						before := dump(dst)
						Plan.arm(k)
						rr := w.Tx(dst, dst.Relayer(), m)
						calls, names := Plan.disarm()
						note(k, calls, names, module+" "+dir+" recv")
						if k > calls {
							break
						}
						after := dump(dst)
						d := world.DiffKVs(before, after)
						if !rr.OK() {
							if len(d) > 0 {
								add(path, "failed-message-changed-state:recv-with-injected-fault", fmt.Sprint(d))
							}
							continue
						}
						(&PktModel{}).absorb(&g, dst, "", rr.Events)
						if !isErrorAck(mustHex(g.AckBytes[pid(p)+"@"+dst.Name])) {
							add(path, "delivery-reports-success-although-token-module-failed", fmt.Sprint(names))
							continue
						}
						for _, line := range d {
							if strings.Contains(line, "\"tibc|receipts/") || strings.Contains(line, "\"tibc|acks/") || strings.Contains(line, "\"tibc|maxAckSeq/") {
								continue
							}
							store := strings.SplitN(strings.TrimLeft(line, "+-~ \""), "|", 2)[0]
							add(path, "error-ack-left-other-effects:destination:store-"+store+":injected-fault:"+module+":"+dir,
								fmt.Sprintf("call #%d (%s) failed, the packet was answered with an error acknowledgement, but %s", k, names[len(names)-1], line))
						}
						continue
					}
					// refund: deliver to the invalid receiver, then fail the k-th call while the source processes the error ack
					rr, err := w.RelayRecv(p, dst)
					if err != nil || !rr.OK() {
						panic(fmt.Sprint("fault set-up: recv failed ", err, rr.Log))
					}
					(&PktModel{}).absorb(&g, dst, "", rr.Events)
					ack := mustHex(g.AckBytes[pid(p)+"@"+dst.Name])
					if r := w.UpdateClient(src, dst); !r.OK() {
						panic(r.Log)
					}
					m, err := w.AckMsg(p, ack, dst, src.Relayer().Addr)
					must(err)
					before := dump(src)
					Plan.arm(k)
					ar := w.Tx(src, src.Relayer(), m)
					calls, names := Plan.disarm()
					note(k, calls, names, module+" "+dir+" refund")
					if k > calls {
						break
					}
					if ar.OK() {
						add(path, "refund-reported-done-although-token-module-failed", fmt.Sprint(names))
					} else if d := world.DiffKVs(before, dump(src)); len(d) > 0 {
						add(path, "failed-message-changed-state:ack-with-injected-fault", fmt.Sprint(d))
					}
				}
			}
		}
	}
	return fs
}

var _ = packettypes.Packet{}

func init() {
	PktRegistry["C19"] = func(tier string) []*PktModel { m, _ := modelsC19(tier); return m }
}
