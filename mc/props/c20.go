package props

import (
	"crypto/sha256"
	"encoding/json"
	"fmt"
	"os"
	"os/exec"
	"sort"
	"strings"
	"time"

	sdk "github.com/cosmos/cosmos-sdk/types"
	authtypes "github.com/cosmos/cosmos-sdk/x/auth/types"
	govtypes "github.com/cosmos/cosmos-sdk/x/gov/types"

	clienttypes "github.com/bianjieai/tibc-go/modules/tibc/core/02-client/types"
	routingtypes "github.com/bianjieai/tibc-go/modules/tibc/core/26-routing/types"
	"github.com/bianjieai/tibc-go/modules/tibc/core/exported"
	bsctypes "github.com/bianjieai/tibc-go/modules/tibc/light-clients/08-bsc/types"
	ethtypes "github.com/bianjieai/tibc-go/modules/tibc/light-clients/09-eth/types"

	"verif/mc/explore"
	"verif/mc/report"
	"verif/mc/world"
)

// fingerprint of a world: every block's time, app hash and result hash on every chain.
func fingerprint(w *world.World) string {
	h := sha256.New()
	for _, c := range w.Chains {
		for i, b := range c.St.Hist {
			fmt.Fprintf(h, "%s|%d|%d|%x|%x\n", c.Name, i, b.Time.UnixNano(), b.AppHash, b.ResHash)
		}
	}
	return fmt.Sprintf("%x", h.Sum(nil)[:16])
}

// ReplayPath executes a recorded action path linearly (no search) on a fresh world and returns the fingerprint.
func (m *PktModel) ReplayPath(path []string) (string, error) {
	wk := m.NewWorker().(*pktWorker)
	st, _ := m.Init(wk)
	cur := st.(PState)
	for i, label := range path {
		succs, _, _ := m.Expand(wk, cur, i, true)
		found := false
		for _, s := range succs {
			if s.Label == label {
				cur = s.State.(PState)
				found = true
				break
			}
		}
		if !found {
			return "", fmt.Errorf("action %q not enabled at step %d", label, i)
		}
	}
	wk.w.Mount(cur.W)
	return fingerprint(wk.w), nil
}

type c20history struct {
	Name string
	Run  func() (string, error)
}

func c20models() map[string]func() *PktModel {
	none := map[string]bool{}
	return map[string]func() *PktModel{
		"core3": func() *PktModel { return withCleans(core3("core3", none, ""), 2) },
		"nft3": func() *PktModel {
			return nft3("nft3", none, NftScenario{MaxUserTx: 3, Receivers: []int{1}, BadReceiver: true, Relays: true}, "")
		},
		"mt2": func() *PktModel {
			return mt3("mt2", none, MtScenario{MaxUserTx: 3, Supply: 3, Amounts: []uint64{1, 4}, Receivers: []int{1}, BadReceiver: true}, []string{A, B})
		},
	}
}

// bscHistory: a BSC client installed on chain A is updated through real MsgUpdateClient transactions (valid headers
// by rotating sealers and one invalid header).
func bscHistory() (string, error) { return bscHistoryOrder(true) }

// bscHistoryOrder: at every step a copy of the chosen valid header sealed by a key outside the validator set is submitted
// before (badFirst) or after the genuine header. The two orders run in one process in both sequences (C20 executes its
// histories forwards and backwards), so a verdict that depends on what the process has verified before shows up.
func bscHistoryOrder(badFirst bool) (string, error) {
	w := world.NewWorld(world.WorldOpts{Names: []string{A}, NoMesh: true})
	a := w.C(A)
	sc := bscScenario{N: 3, Epoch: 4}
	gen, vals := sc.genesis()
	var vb [][]byte
	for _, v := range sortedAddrs(vals) {
		vb = append(vb, v.Bytes())
	}
	gen.Time = uint64(w.Now.Unix())
	ctx := a.Ctx()
	ck := a.App.TIBCKeeper.ClientKeeper
	cs := &bsctypes.ClientState{Header: gen, ChainId: bscChainID, Epoch: sc.Epoch, BlockInteval: 3, Validators: vb, ContractAddress: make([]byte, 20), TrustingPeriod: 1 << 30}
	must(ck.CreateClient(ctx, bscName, cs, &bsctypes.ConsensusState{Timestamp: gen.Time, Number: gen.Height, Root: gen.Root}))
	ck.RegisterRelayers(ctx, bscName, []string{a.Relayer().Addr.String()})
	a.CommitEmpty(w.Tick())
	g := bscGhost{Number: gen.Height.RevisionHeight, Vals: vals, Pending: vals, Signers: map[uint64]int{}, Epoch: sc.Epoch}
	parent := gen
	st := bscState{Ghost: g}
	for i := 0; i < 7; i++ {
		var pick *bscSpec
		menu := sc.menu(st)
		for j := range menu {
			if st.Ghost.expect(menu[j]) && !strings.Contains(menu[j].Label, "corrupted") {
				pick = &menu[j]
				if i%2 == 0 {
					break
				}
			}
		}
		bad := *pick // same signed content, sealed by a key that is not a validator: must be refused deterministically
		bad.Signer = 97
		bad.Label += " corrupted:sealed-by-another-key-coinbase-kept"
		order := []bscSpec{bad, menu[len(menu)-1], *pick}
		if !badFirst {
			order = []bscSpec{*pick, bad}
		}
		for _, s := range order {
			h := s.build(parent)
			msg, err := clienttypes.NewMsgUpdateClient(bscName, h, a.Relayer().Addr)
			must(err)
			res := w.Tx(a, a.Relayer(), msg)
			if res.OK() && !strings.Contains(s.Label, "corrupted") {
				parent = *h
				st = bscState{Hist: append(st.Hist, s), Ghost: st.Ghost.apply(s)}
			}
		}
	}
	return fingerprint(w), nil
}

// ethHistory: an ETH client is updated with synthetic fork headers (seal hook off for those) and then a second client
// with recorded mainnet headers whose ethash seal is really verified (this is where the temp directory is touched).
func ethHistory(withSeal bool) (string, error) {
	w := world.NewWorld(world.WorldOpts{Names: []string{A}, NoMesh: true})
	a := w.C(A)
	ck := a.App.TIBCKeeper.ClientKeeper
	if !withSeal {
		ethtypes.SealCheck = false
		defer func() { ethtypes.SealCheck = true }()
		g := ethGenesis()
		g.Time = uint64(w.Now.Unix()) - 3000
		gh := toRepoHeader(g)
		ctx := a.Ctx()
		must(ck.CreateClient(ctx, ethName, &ethtypes.ClientState{Header: *gh, ChainId: 1, ContractAddress: make([]byte, 20), TrustingPeriod: 1 << 30},
			&ethtypes.ConsensusState{Timestamp: g.Time, Number: gh.Height, Root: g.Root[:]}))
		ck.RegisterRelayers(ctx, ethName, []string{a.Relayer().Addr.String()})
		a.CommitEmpty(w.Tick())
		n0 := ethChild(g, 5, "n0", "0")
		n1 := ethChild(g, 6, "n1", "1")
		n2 := ethChild(n0, 5, "n2", "2")
		n3 := ethChild(n1, 5, "n3", "3")
		n4 := ethChild(n3, 5, "n4", "4")
		n5 := ethChild(n4, 1000, "n5", "5") // long gap: the difficulty adjustment is clamped
		n6 := ethChild(n5, 7, "n6", "6")
		for _, h := range []interface{ Hash() [32]byte }{} {
			_ = h
		}
		for _, h := range []*ethtypes.Header{toRepoHeader(n0), toRepoHeader(n1), toRepoHeader(n2), toRepoHeader(n0), toRepoHeader(n4), toRepoHeader(n3), toRepoHeader(n4), toRepoHeader(n5), toRepoHeader(n6)} {
			msg, err := clienttypes.NewMsgUpdateClient(ethName, h, a.Relayer().Addr)
			must(err)
			w.Tx(a, a.Relayer(), msg)
		}
		return fingerprint(w), nil
	}
	bz, err := os.ReadFile("/repo/modules/tibc/light-clients/09-eth/types/testdata/update_headers.json")
	if err != nil {
		return "", err
	}
	var hs []*ethtypes.EthHeader
	must(json.Unmarshal(bz, &hs))
	first := hs[0].ToHeader()
	w.Now = time.Unix(int64(hs[0].Time)+100, 0)
	a.CommitEmpty(w.Tick())
	ctx := a.Ctx()
	must(ck.CreateClient(ctx, "ethmainnet", &ethtypes.ClientState{Header: first, ChainId: 1, ContractAddress: make([]byte, 20), TrustingPeriod: 1 << 30},
		&ethtypes.ConsensusState{Timestamp: first.Time, Number: first.Height, Root: first.Root}))
	ck.RegisterRelayers(ctx, "ethmainnet", []string{a.Relayer().Addr.String()})
	a.CommitEmpty(w.Tick())
	h1 := hs[1].ToHeader()
	msg, err := clienttypes.NewMsgUpdateClient("ethmainnet", &h1, a.Relayer().Addr)
	must(err)
	res := w.Tx(a, a.Relayer(), msg)
	return fingerprint(w) + fmt.Sprintf(":accepted=%v", res.OK()), nil
}

// govHistory: governance operations executed as x/gov executes a passed proposal (message router, authority = gov
// module account) on chain A, each followed by a block: clients of two types created, one upgraded, relayer lists and
// routing-rule lists with several entries replaced twice, refused variants in between, then header updates signed by
// old and new relayers. The fingerprint covers every block and every handler result (error text, events).
func govHistory() (string, error) {
	gov := authtypes.NewModuleAddress(govtypes.ModuleName).String()
	w := world.NewWorld(world.WorldOpts{Names: []string{A, B, C}})
	a := w.C(A)
	h := sha256.New()
	exec := func(msg sdk.Msg) {
		ctx := a.Ctx()
		var res *sdk.Result
		var err error
		func() {
			defer func() {
				if r := recover(); r != nil {
					err = fmt.Errorf("panic: %v", r)
				}
			}()
			res, err = a.App.MsgServiceRouter().Handler(msg)(ctx, msg)
		}()
		fmt.Fprintf(h, "%T err=%v\n", msg, err)
		if res != nil {
			for _, e := range res.Events {
				fmt.Fprintf(h, " %s", e.Type)
				for _, at := range e.Attributes {
					fmt.Fprintf(h, " %s=%s", at.Key, at.Value)
				}
				fmt.Fprintln(h)
			}
		}
		a.CommitEmpty(w.Tick())
	}
	create := func(name string, cs exported.ClientState, cons exported.ConsensusState, authority string) sdk.Msg {
		m, err := clienttypes.NewMsgCreateClient(name, cs, cons, authority)
		must(err)
		m.ChainName, m.Title, m.Description = name, "t", "d"
		return m
	}
	c := w.C(C)
	tcs, tcons := c.ClientStateFor(c.Height())
	hdr, vals := bscScenario{N: 3, Epoch: 4}.genesis()
	var vb [][]byte
	for _, v := range sortedAddrs(vals) {
		vb = append(vb, v.Bytes())
	}
	bcs := &bsctypes.ClientState{Header: hdr, ChainId: 56, Epoch: 4, BlockInteval: 3, Validators: vb, ContractAddress: make([]byte, 20), TrustingPeriod: 1 << 30}
	bcons := &bsctypes.ConsensusState{Timestamp: hdr.Time, Number: hdr.Height, Root: hdr.Root}
	var addrs []string
	for _, acc := range a.Accounts {
		addrs = append(addrs, acc.Addr.String())
	}
	exec(create("nchainnnn", tcs, tcons, gov))
	exec(create("bscchainb", bcs, bcons, gov))
	exec(create("nchainnnn", tcs, tcons, gov))      // refused: exists
	exec(create("xchainxxx", tcs, tcons, addrs[2])) // refused: not the authority
	b := w.C(B)
	ucs, ucons := b.ClientStateFor(b.Height())
	acs, err := clienttypes.PackClientState(ucs)
	must(err)
	acons, err := clienttypes.PackConsensusState(ucons)
	must(err)
	exec(&clienttypes.MsgUpgradeClient{Title: "t", Description: "d", ChainName: B, ClientState: acs, ConsensusState: acons, Authority: gov})
	exec(&clienttypes.MsgRegisterRelayer{Title: "t", Description: "d", ChainName: B, Relayers: addrs, Authority: gov})
	exec(&clienttypes.MsgRegisterRelayer{Title: "t", Description: "d", ChainName: "uchainuuu", Relayers: addrs[1:3], Authority: gov})
	exec(&clienttypes.MsgRegisterRelayer{Title: "t", Description: "d", ChainName: B, Relayers: []string{addrs[3], addrs[1]}, Authority: gov})
	exec(&routingtypes.MsgSetRoutingRules{Title: "t", Description: "d", Rules: []string{"x,y,z", "*,*,NFT", A + "," + C + ",*", "q,*,MT", "*,r,s"}, Authority: gov})
	exec(&routingtypes.MsgSetRoutingRules{Title: "t", Description: "d", Rules: []string{"x,y"}, Authority: gov}) // refused
	exec(&routingtypes.MsgSetRoutingRules{Title: "t", Description: "d", Rules: []string{"*,*,*", "b,a,c"}, Authority: gov})
	// header updates as signed transactions: a relayer that was replaced, a current one, an arbitrary account
	for _, i := range []int{0, 1, 2} {
		b.CommitEmpty(w.Tick())
		latest, ok := w.ClientLatest(a, b)
		if !ok {
			return "", fmt.Errorf("client of %s lost", B)
		}
		msg, err := clienttypes.NewMsgUpdateClient(B, b.Header(b.Height(), latest), a.Accounts[i].Addr)
		must(err)
		res := w.Tx(a, a.Accounts[i], msg)
		fmt.Fprintf(h, "update by %d code=%d log=%s\n", i, res.Code, res.Log)
	}
	fmt.Fprintf(h, "%s", fingerprint(w))
	return fmt.Sprintf("%x", h.Sum(nil)[:16]), nil
}

// c20Histories builds the list of histories; packet histories are deepest paths of the explored graphs.
func c20Histories(tier string, pathsPerModel int, depth int) []c20history {
	var hs []c20history
	models := c20models()
	var names []string
	for n := range models {
		names = append(names, n)
	}
	sort.Strings(names)
	for _, n := range names {
		mk := models[n]
		r := explore.Run(mk(), explore.Config{Workers: workers(), MaxDepth: depth})
		for i, p := range r.DeepestPaths(pathsPerModel) {
			p := p
			hs = append(hs, c20history{Name: fmt.Sprintf("%s#%d:%s", n, i, strings.Join(p, ">")), Run: func() (string, error) { return mk().ReplayPath(p) }})
		}
	}
	hs = append(hs, c20history{"governance-operations", govHistory}, c20history{"bsc-client-updates", bscHistory},
		c20history{"bsc-client-updates-forged-seal-after-genuine", func() (string, error) { return bscHistoryOrder(false) }},
		c20history{"eth-client-fork-updates", func() (string, error) { return ethHistory(false) }},
		c20history{"eth-client-mainnet-seal", func() (string, error) { return ethHistory(true) }})
	return hs
}

// HelperFingerprints is run in sub-processes: prints "name<TAB>fingerprint" for every history.
func HelperFingerprints(tier string, pathsPerModel, depth int) {
	hs := c20Histories(tier, pathsPerModel, depth)
	if os.Getenv("VERIF_C20_REVERSE") != "" {
		// what an execution has seen before differs from the forward order: every history is preceded by the ones that
		// follow it in the list
		for i, j := 0, len(hs)-1; i < j; i, j = i+1, j-1 {
			hs[i], hs[j] = hs[j], hs[i]
		}
	}
	for _, h := range hs {
		fp, err := h.Run()
		if err != nil {
			fp = "ERROR:" + err.Error()
		}
		fmt.Printf("FP\t%s\t%s\n", h.Name, fp)
	}
}

// CheckC20: state transitions are deterministic.
func CheckC20(tier string) int {
	start := time.Now()
	paths, depth, reps := 4, 6, 3
	if tier == "thorough" {
		paths, depth, reps = 25, 8, 10
	}
	hs := c20Histories(tier, paths, depth)
	var findings []explore.Finding
	addF := func(sig, detail string, path ...string) {
		for _, f := range findings {
			if f.Signature == sig {
				return
			}
		}
		findings = append(findings, explore.Finding{Property: "C20", Signature: sig, Detail: detail, Path: path})
	}
	ref := map[string]string{}
	runs := 0
	kindOf := func(name string) string { return strings.SplitN(strings.SplitN(name, ":", 2)[0], "#", 2)[0] }
	// in-process repetitions (each with fresh map seeds; later ones are preceded by all other histories)
	for r := 0; r < reps; r++ {
		order := hs
		if r%2 == 1 { // reversed order: every history is preceded by different ones
			order = append([]c20history{}, hs...)
			for i, j := 0, len(order)-1; i < j; i, j = i+1, j-1 {
				order[i], order[j] = order[j], order[i]
			}
		}
		for _, h := range order {
			fp, err := h.Run()
			runs++
			if err != nil {
				addF("history-not-replayable:"+kindOf(h.Name), err.Error(), h.Name)
				continue
			}
			if prev, ok := ref[h.Name]; ok && prev != fp {
				addF("same-process-rerun-differs:"+kindOf(h.Name), fmt.Sprintf("%s vs %s", prev, fp), h.Name)
			}
			if _, ok := ref[h.Name]; !ok {
				ref[h.Name] = fp
			}
		}
	}
	// fresh processes under different environments
	envs := []struct {
		name string
		env  []string
	}{
		{"fresh-process", nil},
		{"fresh-process-histories-in-reverse-order", []string{"VERIF_C20_REVERSE=1"}},
		{"GOMAXPROCS=1", []string{"GOMAXPROCS=1"}},
		{"GOMAXPROCS=16", []string{"GOMAXPROCS=16"}},
		{"TMPDIR-does-not-exist", []string{"TMPDIR=/nonexistent-verif-tmpdir/x"}},
	}
	for _, e := range envs {
		cmd := exec.Command(os.Args[0], "helper", "fingerprints", tier, fmt.Sprint(paths), fmt.Sprint(depth))
		cmd.Env = append(os.Environ(), e.env...)
		out, err := cmd.Output()
		if err != nil {
			addF("subprocess-failed:"+e.name, fmt.Sprint(err), e.name)
			continue
		}
		seen := 0
		for _, line := range strings.Split(string(out), "\n") {
			p := strings.Split(line, "\t")
			if len(p) != 3 || p[0] != "FP" {
				continue
			}
			seen++
			runs++
			if want, ok := ref[p[1]]; !ok {
				addF("history-set-differs-between-processes", p[1], e.name)
			} else if want != p[2] {
				addF("result-depends-on-environment:"+e.name+":"+kindOf(p[1]), fmt.Sprintf("in-process %s, %s %s", want, e.name, p[2]), p[1])
			}
		}
		if seen != len(hs) {
			addF("history-set-differs-between-processes", fmt.Sprintf("%d vs %d", seen, len(hs)), e.name)
		}
	}
	var samples []any
	for i, h := range hs {
		if i%(len(hs)/4+1) == 0 {
			samples = append(samples, map[string]any{"history": h.Name, "fingerprint": ref[h.Name]})
		}
	}
	distinct := map[string]bool{}
	for _, v := range ref {
		distinct[v] = true
	}
	cov := map[string]any{
		"states": len(hs), "transitions": runs, "traces_validated_against_impl": runs,
		"histories": len(hs), "executions": runs, "distinct_fingerprints": len(distinct), "in_process_repetitions": reps, "environments": []string{"same process (forward and reversed order)", "fresh process", "fresh process with the histories in reverse order", "GOMAXPROCS=1", "GOMAXPROCS=16", "TMPDIR pointing to a directory that does not exist"},
		"samples": samples, "exhaustive": false,
		"explanation": "histories x environments are enumerated completely; Go's per-loop random map-iteration start cannot be enumerated and is sampled by the repetitions",
	}
	fmt.Fprintf(os.Stderr, "[C20] histories=%d executions=%d distinct fingerprints=%d (%.1fs)\n", len(hs), runs, len(distinct), time.Since(start).Seconds())
	return report.Finish("C20", tier, start, "model_checking", cov, []string{
		"fingerprint = for every chain and block: block time, application hash and the hash of the encoded ExecTxResults and block events",
		"histories: deepest paths of the core3 (with cleans), NFT and MT graphs, a BSC client update history (valid and corrupted headers as real MsgUpdateClient transactions), an ETH fork history, and an ETH mainnet header whose ethash seal is really verified",
		"map-iteration order is sampled (repetitions), not enumerated; the one map ranged on a consensus path in repository code (snap.Recents in the BSC seal check) is additionally covered by C17's exhaustive acceptance oracle",
	}, findings)
}
