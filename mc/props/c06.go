package props

import (
	"encoding/hex"
	"fmt"
	"os"
	"sort"
	"strings"
	"time"

	sdk "github.com/cosmos/cosmos-sdk/types"
	mttypes "mods.irisnet.org/modules/mt/types"

	mttransfer "github.com/bianjieai/tibc-go/modules/tibc/apps/mt_transfer/types"
	nfttransfer "github.com/bianjieai/tibc-go/modules/tibc/apps/nft_transfer/types"
	packettypes "github.com/bianjieai/tibc-go/modules/tibc/core/04-packet/types"

	"verif/mc/explore"
	"verif/mc/report"
	"verif/mc/world"
)

type hop struct {
	from, to, relay string
}

type c06case struct {
	module string // NFT | MT
	class  string // NFT native class
	amount uint64 // MT amount
	route  []hop
	failAt int // -1: full round trip; k: hop k fails on the receiving side
	cause  string
}

func (c c06case) String() string {
	var hs []string
	for _, h := range c.route {
		r := ""
		if h.relay != "" {
			r = "(via " + h.relay + ")"
		}
		hs = append(hs, h.from+">"+h.to+r)
	}
	s := fmt.Sprintf("%s class=%s amount=%d route=%s", c.module, c.class, c.amount, strings.Join(hs, ","))
	if c.failAt >= 0 {
		s += fmt.Sprintf(" fail-at-hop=%d(%s)", c.failAt, c.cause)
	}
	return s
}

// holdingsAll is the comparable token snapshot of every chain.
func holdingsAll(w *world.World) string {
	var out []string
	for _, c := range w.Chains {
		for ci, o := range NftHoldings(c) {
			out = append(out, c.Name+":nft:"+ci+"@"+o)
		}
		mt := MtHoldings(c)
		for k, v := range mt.Bal {
			if v != 0 {
				out = append(out, fmt.Sprintf("%s:mt:%s=%d", c.Name, k, v))
			}
		}
		for k, v := range mt.Supply {
			if v != 0 {
				out = append(out, fmt.Sprintf("%s:mtsupply:%s=%d", c.Name, k, v))
			}
		}
	}
	sort.Strings(out)
	return strings.Join(out, ";")
}

// sendOneHop performs one user transfer and relays the packet and its acknowledgement completely. It returns
// whether the destination answered with a success acknowledgement.
func sendOneHop(w *world.World, cs c06case, h hop, tokenID string, receiver string, steps *int) (success bool, err error) {
	src := w.C(h.from)
	u := User(src, 1)
	var msg sdk.Msg
	switch cs.module {
	case "NFT":
		class := ""
		for ci, o := range NftHoldings(src) {
			p := strings.SplitN(ci, "|", 2)
			if o == u.Addr.String() && p[1] == tokenID {
				class = p[0]
			}
		}
		if class == "" {
			return false, fmt.Errorf("user on %s does not hold the token", h.from)
		}
		msg = nfttransfer.NewMsgNftTransfer(class, tokenID, u.Addr.String(), receiver, h.to, h.relay, "")
	case "MT", "MT2":
		class, id := "", ""
		for k, v := range MtHoldings(src).Bal {
			p := strings.Split(k, "|")
			if p[2] == u.Addr.String() && v >= cs.amount && (tokenID == "" || p[1] == tokenID) {
				class, id = p[0], p[1]
			}
		}
		if class == "" {
			return false, fmt.Errorf("user on %s does not hold the units", h.from)
		}
		msg = mttransfer.NewMsgMtTransfer(class, id, u.Addr.String(), receiver, h.to, h.relay, "", cs.amount)
	}
	res := w.Tx(src, u, msg)
	*steps++
	if !res.OK() {
		return false, fmt.Errorf("send on %s failed: %s", h.from, res.Log)
	}
	var p packettypes.Packet
	g := newGhost()
	(&PktModel{}).absorb(&g, src, "", res.Events)
	if len(g.Pkts) != 1 {
		return false, fmt.Errorf("send announced %d packets", len(g.Pkts))
	}
	p = g.Pkts[0].P
	hops := route(p)
	for i := 1; i < len(hops); i++ {
		r, e := w.RelayRecv(p, w.C(hops[i]))
		*steps++
		if e != nil || !r.OK() {
			return false, fmt.Errorf("recv on %s failed: %v %s", hops[i], e, r.Log)
		}
		(&PktModel{}).absorb(&g, w.C(hops[i]), "", r.Events)
	}
	ackHex := g.AckBytes[pid(p)+"@"+p.DestinationChain]
	ack, _ := hex.DecodeString(ackHex)
	if len(ack) == 0 {
		return false, fmt.Errorf("destination wrote no acknowledgement")
	}
	for i := len(hops) - 2; i >= 0; i-- {
		r, e := w.RelayAck(p, ack, w.C(hops[i]))
		*steps++
		if e != nil || !r.OK() {
			return false, fmt.Errorf("ack on %s failed: %v %s", hops[i], e, r.Log)
		}
	}
	return !isErrorAck(ack), nil
}

// CheckC06: failed transfers refunded exactly; round trips restore the original.
func CheckC06(tier string) int {
	start := time.Now()
	names := []string{A, B, C, D}
	maxHops := 3
	classes := []string{"cls", "nftcls", "nft", "abc/def", "kitties/v2/x", "nft/x/y", "nft/" + A + "/" + B + "/cls", "mixedCaseClass0"}
	if tier == "thorough" {
		classes = append(classes, "c"+strings.Repeat("x", 100), "nft/"+A+"/"+B+"/"+C+"/cls", "nftx/"+A)
	}
	base := world.NewWorld(world.WorldOpts{Names: names})
	for _, n := range names {
		setRules(base, n, []string{"*,*,*"})
	}
	a := base.C(A)
	u := User(a, 1)
	mintable := map[string]bool{}
	for _, cl := range classes {
		r := MintNative(base, a, u, cl, "tok1")
		mintable[cl] = r.OK()
	}
	if r := base.Tx(a, u, mttypes.NewMsgIssueDenom("gold", "", u.Addr.String())); !r.OK() {
		panic(r.Log)
	}
	var denom string
	for d := range mtDenoms(a) {
		denom = d
	}
	const supply = 10
	if r := base.Tx(a, u, mttypes.NewMsgMintMT("", denom, supply, "data", u.Addr.String(), u.Addr.String())); !r.OK() {
		panic(r.Log)
	}
	// a second token id in the same class
	if r := base.Tx(a, u, mttypes.NewMsgMintMT("", denom, supply, "data2", u.Addr.String(), u.Addr.String())); !r.OK() {
		panic(r.Log)
	}
	var mtIDs []string
	for k := range MtHoldings(a).Supply {
		mtIDs = append(mtIDs, strings.Split(k, "|")[1])
	}
	sort.Strings(mtIDs)
	init := base.Freeze()

	// all simple routes from A with 1..maxHops hops, each hop direct or through any chain not on the hop
	var routes [][]hop
	var rec func(path []string, hops []hop)
	rec = func(path []string, hops []hop) {
		if len(hops) > 0 {
			routes = append(routes, append([]hop{}, hops...))
		}
		if len(hops) == maxHops {
			return
		}
		cur := path[len(path)-1]
		for _, n := range names {
			used := false
			for _, p := range path {
				if p == n {
					used = true
				}
			}
			if used {
				continue
			}
			relays := []string{""}
			for _, r := range names {
				if r != cur && r != n {
					relays = append(relays, r)
				}
			}
			for _, r := range relays {
				rec(append(append([]string{}, path...), n), append(append([]hop{}, hops...), hop{cur, n, r}))
			}
		}
	}
	rec([]string{A}, nil)

	var cases []c06case
	for _, rt := range routes {
		// quick tier: three-hop routes with direct hops only, one class, one amount
		light := false
		if tier != "thorough" {
			relayed := 0
			for _, h := range rt {
				if h.relay != "" {
					relayed++
				}
			}
			if len(rt) == 3 {
				if relayed > 0 {
					continue
				}
				light = true
			} else if len(rt) == 2 && relayed == 2 {
				continue
			}
		}
		// both token ids of the class travel the route one after the other (the second arrives where the voucher class
		// already exists) and return
		cases = append(cases, c06case{module: "MT2", amount: 4, route: rt, failAt: -1})
		for k := range rt {
			cases = append(cases, c06case{module: "MT2", amount: 4, route: rt, failAt: k, cause: "invalid-receiver"})
		}
		if light {
			cases = append(cases, c06case{module: "NFT", class: "cls", route: rt, failAt: -1}, c06case{module: "MT", amount: 4, route: rt, failAt: -1})
			for k := range rt {
				cases = append(cases, c06case{module: "NFT", class: "cls", route: rt, failAt: k, cause: "invalid-receiver"}, c06case{module: "MT", amount: 4, route: rt, failAt: k, cause: "invalid-receiver"})
			}
			continue
		}
		for _, cl := range classes {
			if !mintable[cl] {
				continue
			}
			cases = append(cases, c06case{module: "NFT", class: cl, route: rt, failAt: -1})
			for k := range rt {
				cases = append(cases, c06case{module: "NFT", class: cl, route: rt, failAt: k, cause: "invalid-receiver"})
			}
		}
		for _, amt := range []uint64{1, 4, supply} {
			cases = append(cases, c06case{module: "MT", amount: amt, route: rt, failAt: -1})
			for k := range rt {
				cases = append(cases, c06case{module: "MT", amount: amt, route: rt, failAt: k, cause: "invalid-receiver"})
			}
		}
	}
	stats := newStats()
	findings := RunScripts(base, init, len(cases), func(i int, w *world.World) []explore.Finding {
		cs := cases[i]
		steps := 0
		var fs []explore.Finding
		fail := func(sig, detail string) {
			fs = append(fs, explore.Finding{Property: "C06", Signature: sig, Detail: detail, Path: []string{cs.String()}})
		}
		tok := "tok1"
		if cs.module == "MT" || cs.module == "MT2" {
			tok = mtIDs[0]
		}
		// for NFT only the chosen class's token travels: give the others away first? No: they stay with the owner and are
		// part of the snapshot; the travelling token is selected by class below.
		if cs.module == "NFT" {
			// move every other class's tok1 out of the way so that "the token the user holds" is unambiguous
			tok = "tok1"
		}
		origin := holdingsAll(w)
		sendClass := func(h hop, receiver string) (bool, error) {
			if cs.module == "NFT" && h.from == A {
				// first hop from the origin: pick the native class explicitly
				src := w.C(A)
				uu := User(src, 1)
				res := w.Tx(src, uu, nfttransfer.NewMsgNftTransfer(cs.class, "tok1", uu.Addr.String(), receiver, h.to, h.relay, ""))
				steps++
				if !res.OK() {
					return false, fmt.Errorf("send on %s failed: %s", h.from, res.Log)
				}
				g := newGhost()
				(&PktModel{}).absorb(&g, src, "", res.Events)
				p := g.Pkts[0].P
				hops := route(p)
				for i := 1; i < len(hops); i++ {
					r, e := w.RelayRecv(p, w.C(hops[i]))
					steps++
					if e != nil || !r.OK() {
						return false, fmt.Errorf("recv on %s failed: %v %s", hops[i], e, r.Log)
					}
					(&PktModel{}).absorb(&g, w.C(hops[i]), "", r.Events)
				}
				ack, _ := hex.DecodeString(g.AckBytes[pid(p)+"@"+p.DestinationChain])
				for i := len(hops) - 2; i >= 0; i-- {
					r, e := w.RelayAck(p, ack, w.C(hops[i]))
					steps++
					if e != nil || !r.OK() {
						return false, fmt.Errorf("ack on %s failed: %v %s", hops[i], e, r.Log)
					}
				}
				return !isErrorAck(ack), nil
			}
			return sendOneHop(w, cs, h, tok, receiver, &steps)
		}
		outcome := "round-trip-restored"
		if cs.module == "MT2" {
			for k, h := range cs.route {
				if ok, err := sendOneHop(w, cs, h, mtIDs[0], User(w.C(h.to), 1).Addr.String(), &steps); err != nil || !ok {
					fail("hop-failed", fmt.Sprintf("first token id, hop %d: ok=%v err=%v", k, ok, err))
					return fs
				}
			}
			tok = mtIDs[1]
		}
		for k, h := range cs.route {
			receiver := User(w.C(h.to), 1).Addr.String()
			before := holdingsAll(w)
			if k == cs.failAt {
				receiver = "not-an-address"
			}
			ok, err := sendClass(h, receiver)
			if err != nil {
				if k == 0 && cs.module == "NFT" && strings.Contains(cs.class, "/") && origin == holdingsAll(w) {
					// a native class with the class-path delimiter is refused at the first send and nothing moved: no
					// transfer took place, the property says nothing about it
					stats.note("native-class-not-transferable", steps, cs.String())
					return nil
				}
				fail("hop-failed", fmt.Sprintf("hop %d: %v", k, err))
				return fs
			}
			if k == cs.failAt {
				if ok {
					fail("invalid-receiver-not-refused", fmt.Sprintf("hop %d", k))
					return fs
				}
				if after := holdingsAll(w); after != before {
					fail("refund-not-exact", fmt.Sprintf("hop %d: before %s after %s", k, before, after))
				}
				stats.note("refund-exact", steps, cs.String())
				return fs
			}
			if !ok {
				fail("transfer-refused-by-destination", fmt.Sprintf("hop %d %v", k, h))
				return fs
			}
		}
		for k := len(cs.route) - 1; k >= 0; k-- {
			h := cs.route[k]
			back := hop{from: h.to, to: h.from, relay: h.relay}
			ok, err := sendOneHop(w, cs, back, tok, User(w.C(back.to), 1).Addr.String(), &steps)
			if err != nil || !ok {
				fail("return-hop-failed", fmt.Sprintf("return over hop %d (%v): ok=%v err=%v", k, back, ok, err))
				return fs
			}
		}
		if cs.module == "MT2" {
			for k := len(cs.route) - 1; k >= 0; k-- {
				h := cs.route[k]
				back := hop{from: h.to, to: h.from, relay: h.relay}
				if ok, err := sendOneHop(w, cs, back, mtIDs[0], User(w.C(back.to), 1).Addr.String(), &steps); err != nil || !ok {
					fail("return-hop-failed", fmt.Sprintf("first token id, return over hop %d (%v): ok=%v err=%v", k, back, ok, err))
					return fs
				}
			}
		}
		if end := holdingsAll(w); end != origin {
			fail("round-trip-did-not-restore", fmt.Sprintf("start %s end %s", origin, end))
			outcome = "round-trip-differs"
		}
		stats.note(outcome, steps, cs.String())
		return fs
	})
	cov := map[string]any{
		"states": stats.Steps + 1, "transitions": stats.Steps, "traces_validated_against_impl": stats.Executions,
		"executions": stats.Executions, "cases": len(cases), "routes": len(routes), "classes": classes, "outcomes": stats.Outcomes,
		"distinct_outcomes": len(stats.Outcomes), "samples": stats.Samples, "exhaustive": true,
		"bounds": fmt.Sprintf("chains %v, simple routes from %s of 1..%d hops, each hop direct or through any other chain; NFT classes %d; MT amounts {1,4,%d}; two token ids of one MT class travelling one after the other; failure at every hop (invalid receiver); quick tier: three-hop routes with direct hops only and one class / amount, two-hop routes with at most one relayed hop", names, A, maxHops, len(classes), supply),
	}
	fmt.Fprintf(os.Stderr, "[C06] cases=%d executions=%d steps=%d outcomes=%v (%.1fs)\n", len(cases), stats.Executions, stats.Steps, stats.Outcomes, time.Since(start).Seconds())
	return report.Finish("C06", tier, start, "model_checking", cov, append([]string{
		"differential oracle: the token snapshot of every chain (NFT owners, MT balances and supplies) before the first send equals the snapshot after the complete return; for a failing hop the snapshot before that hop's send equals the snapshot after its error acknowledgement was processed",
		"states/transitions count the transactions executed by the scripted executions (one state per executed transaction); every case of the finite family is executed",
		"failure cause enumerated: invalid receiver address on the receiving side (input-reachable); injected token-keeper failures are covered by C19",
	}, commonAssumptions...), findings)
}
