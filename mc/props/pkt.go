// Package props contains the scenario models and oracles, one check per property.
package props

import (
	"bytes"
	"crypto/sha256"
	"encoding/hex"
	"encoding/json"
	"fmt"
	"os"
	"regexp"
	"sort"
	"strconv"
	"strings"

	abci "github.com/cometbft/cometbft/abci/types"
	sdk "github.com/cosmos/cosmos-sdk/types"

	clienttypes "github.com/bianjieai/tibc-go/modules/tibc/core/02-client/types"
	packettypes "github.com/bianjieai/tibc-go/modules/tibc/core/04-packet/types"
	host "github.com/bianjieai/tibc-go/modules/tibc/core/24-host"

	"verif/mc/explore"
	"verif/mc/world"
)

// TokenStores are the stores TIBC and the token modules can write.
var TokenStores = []string{"tibc", "NFT", "MT", "nft", "mt"}

// ---------------------------------------------------------------------------------------------
// Ghost state

// PktRec is a packet the ghost knows about (announced by a send on its source chain).
type PktRec struct {
	P    packettypes.Packet
	Spec string // label of the action that sent it
}

func pid(p packettypes.Packet) string {
	return fmt.Sprintf("%s>%s#%d", p.SourceChain, p.DestinationChain, p.Sequence)
}

// Ghost is the reference bookkeeping, part of the state key.
type Ghost struct {
	Pkts     []PktRec
	Sends    map[string]int    // action label -> times executed successfully
	Recv     map[string]int    // pid@chain -> successful MsgRecvPacket count
	AppRecv  map[string]int    // pid -> destination application callbacks (count)
	AckBytes map[string]string // pid@chain -> hex of the ack bytes written on that chain (from write_acknowledgement)
	AckOK    map[string]int    // pid@chain -> successful MsgAcknowledgement count
	AppAck   map[string]int    // pid -> source application ack callbacks
	Cleaned  map[string]uint64 // src>dst@chain -> highest clean point accepted there (ghost)
	Extra    map[string]string // scenario-specific ghost facts
}

func newGhost() Ghost {
	return Ghost{Sends: map[string]int{}, Recv: map[string]int{}, AppRecv: map[string]int{}, AckBytes: map[string]string{},
		AckOK: map[string]int{}, AppAck: map[string]int{}, Cleaned: map[string]uint64{}, Extra: map[string]string{}}
}

func cpm[V any](m map[string]V) map[string]V {
	o := make(map[string]V, len(m))
	for k, v := range m {
		o[k] = v
	}
	return o
}

func (g Ghost) clone() Ghost {
	return Ghost{Pkts: append([]PktRec{}, g.Pkts...), Sends: cpm(g.Sends), Recv: cpm(g.Recv), AppRecv: cpm(g.AppRecv),
		AckBytes: cpm(g.AckBytes), AckOK: cpm(g.AckOK), AppAck: cpm(g.AppAck), Cleaned: cpm(g.Cleaned), Extra: cpm(g.Extra)}
}

func (g Ghost) find(src, dst string, seq uint64) (PktRec, bool) {
	for _, r := range g.Pkts {
		if r.P.SourceChain == src && r.P.DestinationChain == dst && r.P.Sequence == seq {
			return r, true
		}
	}
	return PktRec{}, false
}

// PState is a state of the packet model.
type PState struct {
	W world.WState
	G Ghost
	// Rec holds every relayed message that was accepted on the path to this state, verbatim (old proof, old proof
	// height). Not part of the key: it is re-submitted in later states as a replay probe.
	Rec []RecMsg
}

// RecMsg is an accepted relayed message.
type RecMsg struct {
	Kind  string // recv | ack | recvclean
	Chain string
	Label string
	Msg   sdk.Msg
	Seq   uint64
	Src   string
	Dst   string
}

// ---------------------------------------------------------------------------------------------
// Model configuration

// UserAction is a scenario-supplied transition (a user transaction or a keeper-level send).
type UserAction struct {
	Label string
	On    string // chain it runs on (for before/after observation)
	// Run executes on the mounted world and returns the chain it ran on, the result and whether it counts as
	// executed (for the Max bound). Events of successful results are scanned for packets.
	Run func(w *world.World) (on *world.Chain, res world.TxRes)
}

// PktModel is the shared protocol model; properties switch their oracles on through Props.
type PktModel struct {
	Name      string
	Names     []string // chain names
	Props     map[string]bool
	WorldOpts world.WorldOpts
	Setup     func(w *world.World)
	// InitGhost seeds scenario ghost facts after Setup.
	InitGhost func(w *world.World, g *Ghost)
	// UserActions lists scenario transitions enabled in the mounted state.
	UserActions func(m *PktModel, w *world.World, g Ghost) []UserAction
	// Cleans enables clean / recv-clean transitions with N up to MaxCleanSeq.
	Cleans      bool
	MaxCleanSeq uint64
	// ProbeMode: "", "try" (handler on a branch), "tx" (real transaction + dump comparison)
	ProbeMode string
	// ProbeEveryDepth: run probes only on states whose depth is a multiple (1 = all).
	ProbeFilter func(depth int) bool
	// StateCheck lets a property add invariants on the mounted state.
	StateCheck func(m *PktModel, w *world.World, st PState) []explore.Finding
	// StepCheck lets a property judge a transition. before/after are dumps of the touched chain.
	StepCheck func(m *PktModel, w *world.World, ev *StepEvent) []explore.Finding
	// Observe, if set, is evaluated on the touched chain before and after every transition (token holdings).
	Observe    func(c *world.Chain) any
	KeyClients bool // include clients/ in the key

	base *world.World // world built from genesis (worker 0 uses it directly)
	init PState
}

// StepEvent describes one executed transition for oracles.
type StepEvent struct {
	Label   string
	Kind    string // send | recv | ack | clean | recvclean | user
	Chain   *world.Chain
	Pkt     packettypes.Packet
	Clean   packettypes.CleanPacket
	Ack     []byte
	Res     world.TxRes
	Err     error
	Before  []world.KV // TokenStores dump of Chain before
	After   []world.KV
	GBefore Ghost
	GAfter  *Ghost
	// ObsBefore/ObsAfter are Observe(Chain) before and after.
	ObsBefore, ObsAfter any
}

type pktWorker struct {
	w *world.World
}

// NewWorker implements explore.Model.
func (m *PktModel) NewWorker() any {
	if m.base == nil {
		o := m.WorldOpts
		o.Names = m.Names
		m.base = world.NewWorld(o)
		if m.Setup != nil {
			m.Setup(m.base)
		}
		g := newGhost()
		if m.InitGhost != nil {
			m.InitGhost(m.base, &g)
		}
		m.init = PState{W: m.base.Freeze(), G: g}
		return &pktWorker{w: m.base}
	}
	return &pktWorker{w: m.base.Shadow()}
}

// Init implements explore.Model.
func (m *PktModel) Init(wk any) (any, string) {
	w := wk.(*pktWorker).w
	w.Mount(m.init.W)
	return m.init, m.key(w, m.init.G)
}

func skipClients(kv world.KV) bool {
	return kv.Store == "tibc" && bytes.HasPrefix(kv.K, []byte("clients/"))
}

// key computes the canonical key of the mounted world + ghost.
func (m *PktModel) key(w *world.World, g Ghost) string {
	h := sha256.New()
	for _, c := range w.Chains {
		skip := skipClients
		if m.KeyClients {
			skip = nil
		}
		d := world.HashKVs(c.DumpStores(TokenStores...), skip)
		h.Write(d[:])
	}
	gj, _ := json.Marshal(g)
	h.Write(gj)
	return hex.EncodeToString(h.Sum(nil)[:16])
}

// route returns the hops of a packet: source, optional relay, destination.
func route(p packettypes.Packet) []string {
	if p.RelayChain != "" {
		return []string{p.SourceChain, p.RelayChain, p.DestinationChain}
	}
	return []string{p.SourceChain, p.DestinationChain}
}

func sha(b []byte) []byte { h := sha256.Sum256(b); return h[:] }

type relAction struct {
	label string
	kind  string
	pkt   packettypes.Packet
	at    string
	ack   []byte
	clean packettypes.CleanPacket
}

// relayerActions lists the honest relayer transitions enabled in the mounted state.
func (m *PktModel) relayerActions(w *world.World, g Ghost) []relAction {
	var out []relAction
	known := func(n string) bool { return w.Idx(n) >= 0 }
	for _, r := range g.Pkts {
		p := r.P
		hops := route(p)
		// hops that do not exist in this world (a destination nobody has a client for) cannot be relayed to; the hops
		// before them can
		want := sha(p.Data)
		for i := 1; i < len(hops) && known(hops[i]); i++ {
			prev, at := w.C(hops[i-1]), w.C(hops[i])
			if bytes.Equal(prev.Commitment(p.SourceChain, p.DestinationChain, p.Sequence), want) &&
				!at.HasReceipt(p.SourceChain, p.DestinationChain, p.Sequence) &&
				p.Sequence > at.CleanPoint(p.SourceChain, p.DestinationChain) {
				out = append(out, relAction{label: fmt.Sprintf("recv:%s@%s", pid(p), at.Name), kind: "recv", pkt: p, at: at.Name})
			}
		}
		for i := len(hops) - 2; i >= 0; i-- {
			if !known(hops[i+1]) || !known(hops[i]) {
				continue
			}
			next, at := w.C(hops[i+1]), w.C(hops[i])
			ackHex, have := g.AckBytes[pid(p)+"@"+next.Name]
			if !have {
				continue
			}
			if _, stored := next.AckHash(p.SourceChain, p.DestinationChain, p.Sequence); !stored {
				continue
			}
			if !bytes.Equal(at.Commitment(p.SourceChain, p.DestinationChain, p.Sequence), want) {
				continue
			}
			ack, _ := hex.DecodeString(ackHex)
			out = append(out, relAction{label: fmt.Sprintf("ack:%s@%s", pid(p), at.Name), kind: "ack", pkt: p, at: at.Name, ack: ack})
		}
	}
	if m.Cleans {
		// channels that have packets
		type ch struct{ src, dst, relay string }
		seen := map[ch]bool{}
		for _, r := range g.Pkts {
			c := ch{r.P.SourceChain, r.P.DestinationChain, r.P.RelayChain}
			if seen[c] {
				continue
			}
			seen[c] = true
			for n := uint64(1); n <= m.MaxCleanSeq; n++ {
				cp := packettypes.CleanPacket{Sequence: n, SourceChain: c.src, DestinationChain: c.dst, RelayChain: c.relay}
				out = append(out, relAction{label: fmt.Sprintf("clean:%s>%s/%s#%d", c.src, c.dst, c.relay, n), kind: "clean", clean: cp, at: c.src})
			}
			hops := []string{c.src, c.dst}
			if c.relay != "" {
				hops = []string{c.src, c.relay, c.dst}
			}
			for i := 1; i < len(hops); i++ {
				if !known(hops[i]) || !known(hops[i-1]) {
					continue
				}
				prev, at := w.C(hops[i-1]), w.C(hops[i])
				n := prev.CleanPoint(c.src, c.dst)
				if n > at.CleanPoint(c.src, c.dst) {
					cp := packettypes.CleanPacket{Sequence: n, SourceChain: c.src, DestinationChain: c.dst, RelayChain: c.relay}
					out = append(out, relAction{label: fmt.Sprintf("recvclean:%s>%s/%s#%d@%s", c.src, c.dst, c.relay, n, at.Name), kind: "recvclean", clean: cp, at: at.Name})
				}
			}
		}
	}
	return out
}

// absorb scans the events of a successful transaction on chain c and updates the ghost.
func (m *PktModel) absorb(g *Ghost, c *world.Chain, label string, evs []abci.Event) {
	for _, a := range world.EventAttrs(evs, packettypes.EventTypeSendPacket) {
		seq, _ := strconv.ParseUint(a[packettypes.AttributeKeySequence], 10, 64)
		p := packettypes.Packet{Sequence: seq, Port: a[packettypes.AttributeKeyPort], SourceChain: a[packettypes.AttributeKeySrcChain],
			DestinationChain: a[packettypes.AttributeKeyDstChain], RelayChain: a[packettypes.AttributeKeyRelayChain],
			Data: []byte(a[packettypes.AttributeKeyData])}
		if p.SourceChain != c.Name {
			continue // re-commit on a relay chain, same packet
		}
		if _, ok := g.find(p.SourceChain, p.DestinationChain, p.Sequence); !ok {
			g.Pkts = append(g.Pkts, PktRec{P: p, Spec: label})
		}
	}
	for _, a := range world.EventAttrs(evs, packettypes.EventTypeWriteAck) {
		seq, _ := strconv.ParseUint(a[packettypes.AttributeKeySequence], 10, 64)
		id := fmt.Sprintf("%s>%s#%d", a[packettypes.AttributeKeySrcChain], a[packettypes.AttributeKeyDstChain], seq)
		g.AckBytes[id+"@"+c.Name] = hex.EncodeToString([]byte(a[packettypes.AttributeKeyAck]))
	}
}

// Expand implements explore.Model.
func (m *PktModel) Expand(wk any, state any, depth int, withSucc bool) ([]explore.Succ, []explore.Finding, map[string]int) {
	w := wk.(*pktWorker).w
	st := state.(PState)
	counters := map[string]int{}
	var sf []explore.Finding
	w.Mount(st.W)
	if m.StateCheck != nil {
		sf = append(sf, m.StateCheck(m, w, st)...)
	}
	if m.ProbeMode != "" && (m.ProbeFilter == nil || m.ProbeFilter(depth)) {
		sf = append(sf, m.runProbes(w, st, counters)...)
		w.Mount(st.W)
	}
	if !withSucc {
		return nil, sf, counters
	}
	var succs []explore.Succ
	rel := m.relayerActions(w, st.G)
	var users []UserAction
	if m.UserActions != nil {
		users = m.UserActions(m, w, st.G)
	}
	for _, ua := range users {
		w.Mount(st.W)
		g := st.G.clone()
		ev := &StepEvent{Label: ua.Label, Kind: "user", GBefore: st.G, GAfter: &g}
		if ua.On != "" {
			ev.Before = w.C(ua.On).DumpStores(TokenStores...)
			if m.Observe != nil {
				ev.ObsBefore = m.Observe(w.C(ua.On))
			}
		}
		on, res := ua.Run(w)
		ev.Chain, ev.Res = on, res
		if ua.On != "" {
			ev.After = on.DumpStores(TokenStores...)
			if m.Observe != nil {
				ev.ObsAfter = m.Observe(on)
			}
		}
		if res.OK() {
			g.Sends[ua.Label]++
			m.absorb(&g, on, ua.Label, res.Events)
		}
		succs = append(succs, m.finish(w, st, ev, &g, counters))
	}
	for _, ra := range rel {
		w.Mount(st.W)
		g := st.G.clone()
		at := w.C(ra.at)
		ev := &StepEvent{Label: ra.label, Kind: ra.kind, Chain: at, Pkt: ra.pkt, Clean: ra.clean, Ack: ra.ack, GBefore: st.G, GAfter: &g}
		ev.Before = at.DumpStores(TokenStores...)
		if m.Observe != nil {
			ev.ObsBefore = m.Observe(at)
		}
		switch ra.kind {
		case "recv":
			ev.Res, ev.Err = w.RelayRecv(ra.pkt, at)
			if ev.Err == nil && ev.Res.OK() {
				g.Recv[pid(ra.pkt)+"@"+at.Name]++
				if ra.pkt.DestinationChain == at.Name {
					g.AppRecv[pid(ra.pkt)]++
				}
				m.absorb(&g, at, ra.label, ev.Res.Events)
			}
		case "ack":
			ev.Res, ev.Err = w.RelayAck(ra.pkt, ra.ack, at)
			if ev.Err == nil && ev.Res.OK() {
				g.AckOK[pid(ra.pkt)+"@"+at.Name]++
				if ra.pkt.SourceChain == at.Name {
					g.AppAck[pid(ra.pkt)]++
				}
				m.absorb(&g, at, ra.label, ev.Res.Events)
			}
		case "clean":
			msg := &packettypes.MsgCleanPacket{CleanPacket: ra.clean, Signer: at.Relayer().Addr.String()}
			ev.Res = w.Tx(at, at.Relayer(), msg)
			if ev.Res.OK() {
				g.Cleaned[fmt.Sprintf("%s>%s@%s", ra.clean.SourceChain, ra.clean.DestinationChain, at.Name)] = ra.clean.Sequence
			}
		case "recvclean":
			ev.Res, ev.Err = w.RelayClean(ra.clean, at)
			if ev.Err == nil && ev.Res.OK() {
				g.Cleaned[fmt.Sprintf("%s>%s@%s", ra.clean.SourceChain, ra.clean.DestinationChain, at.Name)] = ra.clean.Sequence
			}
		}
		ev.After = at.DumpStores(TokenStores...)
		if m.Observe != nil {
			ev.ObsAfter = m.Observe(at)
		}
		sc := m.finish(w, st, ev, &g, counters)
		if ev.Err == nil && ev.Res.OK() && w.LastMsg != nil && (ra.kind == "recv" || ra.kind == "ack" || ra.kind == "recvclean") {
			ns := sc.State.(PState)
			rm := RecMsg{Kind: ra.kind, Chain: at.Name, Label: ra.label, Msg: w.LastMsg, Seq: ra.pkt.Sequence, Src: ra.pkt.SourceChain, Dst: ra.pkt.DestinationChain}
			if ra.kind == "recvclean" {
				rm.Seq, rm.Src, rm.Dst = ra.clean.Sequence, ra.clean.SourceChain, ra.clean.DestinationChain
			}
			ns.Rec = append(append([]RecMsg{}, st.Rec...), rm)
			sc.State = ns
		}
		w.LastMsg = nil
		succs = append(succs, sc)
	}
	return succs, sf, counters
}

func (m *PktModel) finish(w *world.World, st PState, ev *StepEvent, g *Ghost, counters map[string]int) explore.Succ {
	var fs []explore.Finding
	if m.StepCheck != nil {
		fs = m.StepCheck(m, w, ev)
	}
	ns := PState{W: w.Freeze(), G: *g, Rec: st.Rec}
	outcome := ev.Kind + ":"
	switch {
	case ev.Err != nil:
		outcome += "relay-error"
	case ev.Res.OK():
		outcome += "ok"
	default:
		outcome += "rejected:" + errClass(ev.Res.Log)
	}
	return explore.Succ{Label: ev.Label, State: ns, Key: m.key(w, *g), Findings: fs, Outcome: outcome}
}

var hexRe = regexp.MustCompile(`[0-9A-Fa-f]{6,}|[0-9]+`)

// errClass shortens an error log to a stable class for statistics (hashes and numbers removed).
func errClass(log string) string {
	s := hexRe.ReplaceAllString(log, "#")
	if i := strings.Index(s, "Please ensure"); i > 0 {
		s = s[:i]
	}
	if len(s) > 110 {
		s = s[:110]
	}
	return s
}

// ---------------------------------------------------------------------------------------------
// Probes

// Probe is an adversarial message with the verdict the reference oracle assigns to it.
type Probe struct {
	Label     string
	Chain     string
	Msg       sdk.Msg
	Signer    int    // account index on Chain that signs in tx mode
	MustFail  string // property id that demands rejection ("" = no demand)
	AlsoFail  string // a second property that demands the same
	Signature string // finding signature if it is accepted although MustFail
}

func heightPlus(h clienttypes.Height, d int64) clienttypes.Height {
	return clienttypes.NewHeight(h.RevisionNumber, uint64(int64(h.RevisionHeight)+d))
}

// proofFrom queries a genuine proof of key on chain c at the newest height that chain at's client of c knows
// (c's own newest height if at has no such client).
func proofFrom(w *world.World, at string, c *world.Chain, key []byte) ([]byte, clienttypes.Height) {
	h := c.Height()
	if w.Idx(at) >= 0 && at != c.Name {
		if lh, ok := w.ClientLatest(w.C(at), c); ok {
			h = int64(lh.RevisionHeight)
		}
	}
	bz, ph, err := c.Proof(key, h)
	if err != nil {
		return []byte("unavailable"), clienttypes.NewHeight(0, uint64(h))
	}
	return bz, ph
}

func thirdChain(w *world.World, not ...string) string {
	for _, c := range w.Chains {
		used := false
		for _, n := range not {
			if n == c.Name {
				used = true
			}
		}
		if !used {
			return c.Name
		}
	}
	return ""
}

// legitRecv is the reference verdict for a receive message: the chain the packet's own fields select as the
// previous hop holds sha256(data) under the packet's commitment key, and the proof is that chain's proof of that key
// at its latest height.
func legitRecv(w *world.World, p packettypes.Packet, at string, proofChain string, proofKey []byte, fresh bool) bool {
	if len(p.Data) == 0 || p.Sequence == 0 || !fresh {
		return false
	}
	y := world.ProvingChainForRecv(p, at)
	if y != proofChain || w.Idx(y) < 0 {
		return false
	}
	if !bytes.Equal(proofKey, host.PacketCommitmentKey(p.SourceChain, p.DestinationChain, p.Sequence)) {
		return false
	}
	return bytes.Equal(w.C(y).Commitment(p.SourceChain, p.DestinationChain, p.Sequence), sha(p.Data))
}

func legitAck(w *world.World, p packettypes.Packet, ack []byte, at string, proofChain string, proofKey []byte, fresh bool) bool {
	if len(p.Data) == 0 || p.Sequence == 0 || !fresh || len(ack) == 0 {
		return false
	}
	if !bytes.Equal(w.C(at).Commitment(p.SourceChain, p.DestinationChain, p.Sequence), sha(p.Data)) {
		return false
	}
	y := world.ProvingChainForAck(p, at)
	if y != proofChain || w.Idx(y) < 0 {
		return false
	}
	if !bytes.Equal(proofKey, host.PacketAcknowledgementKey(p.SourceChain, p.DestinationChain, p.Sequence)) {
		return false
	}
	h, ok := w.C(y).AckHash(p.SourceChain, p.DestinationChain, p.Sequence)
	return ok && bytes.Equal(h, sha(ack))
}

// pctEscape writes the last character of a name as a percent escape ("achainaaa" -> "achainaa%61").
func pctEscape(name string) string {
	if name == "" {
		return name
	}
	return fmt.Sprintf("%s%%%02X", name[:len(name)-1], name[len(name)-1])
}

// relayTarget says which chain an edited relay-chain field names, relative to the original packet.
func relayTarget(orig, q packettypes.Packet) string {
	switch q.RelayChain {
	case orig.SourceChain:
		return "source"
	case orig.DestinationChain:
		return "destination"
	}
	return "third-chain"
}

// roleSuffix says where an altered packet was accepted: the role of chain at in the ORIGINAL packet's route, and for
// port edits the port it was redirected to.
func roleSuffix(orig, q packettypes.Packet, at string) string {
	role := "third-chain"
	switch at {
	case orig.SourceChain:
		role = "source"
	case orig.DestinationChain:
		role = "destination"
	case orig.RelayChain:
		role = "relay-chain"
	}
	s := "@" + role
	if orig.Port != q.Port {
		s += ":" + orig.Port + "->" + q.Port
	}
	return s
}

// recvProbes builds the receive-side probe menu for packet p on chain at.
func (m *PktModel) recvProbes(w *world.World, g Ghost, p packettypes.Packet, at string) []Probe {
	var out []Probe
	signer := w.C(at).Relayer().Addr.String()
	ckey := func(q packettypes.Packet) []byte {
		return host.PacketCommitmentKey(q.SourceChain, q.DestinationChain, q.Sequence)
	}
	add := func(label string, q packettypes.Packet, proofChain string, key []byte, dh int64, mangle func([]byte) []byte) {
		if w.Idx(proofChain) < 0 {
			return
		}
		proof, ph := proofFrom(w, at, w.C(proofChain), key)
		fresh := dh == 0 && mangle == nil
		if mangle != nil {
			proof = mangle(proof)
		}
		ph = heightPlus(ph, dh)
		legit := legitRecv(w, q, at, proofChain, key, fresh)
		// identity of the packet as C01 sees it: source, destination, sequence, data. Port / relay edits are C13's.
		orig, isKnown := g.find(q.SourceChain, q.DestinationChain, q.Sequence)
		pr := Probe{Label: fmt.Sprintf("recv[%s]%s@%s", label, pid(p), at), Chain: at,
			Msg: &packettypes.MsgRecvPacket{Packet: q, ProofCommitment: proof, ProofHeight: ph, Signer: signer}}
		altered := isKnown && bytes.Equal(orig.P.Data, q.Data) && (orig.P.Port != q.Port || orig.P.RelayChain != q.RelayChain)
		switch {
		case !legit && !altered:
			pr.MustFail, pr.Signature = "C01", "recv-accepted-without-commitment:"+label
		case altered:
			if !legit {
				pr.AlsoFail = "C01"
			}
			alt := "port"
			if orig.P.RelayChain != q.RelayChain {
				switch {
				case orig.P.RelayChain == "":
					alt = "relay-added(" + relayTarget(orig.P, q) + ")"
				case q.RelayChain == "":
					alt = "relay-removed"
				default:
					alt = "relay-replaced(" + relayTarget(orig.P, q) + ")"
				}
			}
			pr.MustFail, pr.Signature = "C13", "recv-accepted-with-altered-"+alt+roleSuffix(orig.P, q, at)
		case g.Recv[pid(q)+"@"+at] > 0 || w.C(at).CleanPoint(q.SourceChain, q.DestinationChain) >= q.Sequence:
			pr.MustFail, pr.Signature = "C02", "recv-replay-accepted:"+label
			if w.C(at).CleanPoint(q.SourceChain, q.DestinationChain) >= q.Sequence {
				pr.AlsoFail = "C10"
				pr.Signature = "recv-accepted-at-or-below-clean-point:" + label
			}
		default:
			return // an honest, fresh message: not a probe
		}
		out = append(out, pr)
	}
	prev := world.ProvingChainForRecv(p, at)
	flip := func(b []byte) []byte { c := append([]byte{}, b...); c[0] ^= 1; return c }
	q := p
	add("replay", q, prev, ckey(p), 0, nil)
	q = p
	q.Data = flip(p.Data)
	add("data-flip", q, prev, ckey(p), 0, nil)
	q = p
	q.Data = append(append([]byte{}, p.Data...), 0)
	add("data-append", q, prev, ckey(p), 0, nil)
	q = p
	q.Sequence = p.Sequence + 1
	add("seq+1-proof-of-orig", q, prev, ckey(p), 0, nil)
	add("seq+1-proof-of-own-key", q, prev, ckey(q), 0, nil)
	if p.Sequence > 1 {
		q = p
		q.Sequence = p.Sequence - 1
		add("seq-1-proof-of-orig", q, prev, ckey(p), 0, nil)
		add("seq-1-proof-of-own-key", q, prev, ckey(q), 0, nil)
	}
	q = p
	q.SourceChain, q.DestinationChain = p.DestinationChain, p.SourceChain
	add("endpoints-swapped", q, world.ProvingChainForRecv(q, at), ckey(p), 0, nil)
	if t := thirdChain(w, p.SourceChain, p.DestinationChain, p.RelayChain); t != "" {
		q = p
		q.DestinationChain = t
		add("dest-replaced", q, world.ProvingChainForRecv(q, at), ckey(p), 0, nil)
		add("dest-replaced-own-key", q, world.ProvingChainForRecv(q, at), ckey(q), 0, nil)
		if p.DestinationChain == at && p.RelayChain == "" {
			// a packet sent directly to this chain presented as one this chain should forward: destination replaced by a third
			// chain and this chain named as relay, with the source's genuine proof of the direct packet
			q = p
			q.DestinationChain, q.RelayChain = t, at
			add("dest-replaced-and-relay=self", q, p.SourceChain, ckey(p), 0, nil)
		}
		q = p
		q.SourceChain = t
		add("source-replaced", q, world.ProvingChainForRecv(q, at), ckey(p), 0, nil)
		add("source-replaced-own-key", q, t, ckey(q), 0, nil)
		// wrong proving chain: a genuine proof, but produced by a chain that is not the previous hop
		add("proof-from-third-chain", p, t, ckey(p), 0, nil)
	}
	// chain names written with a percent escape: another name as far as receipts, clean points and the application
	// are concerned; presented with the genuine proof of the packet's real commitment key
	q = p
	q.SourceChain = pctEscape(p.SourceChain)
	add("source-percent-escaped", q, prev, ckey(p), 0, nil)
	q = p
	q.DestinationChain = pctEscape(p.DestinationChain)
	add("dest-percent-escaped", q, prev, ckey(p), 0, nil)
	for _, o := range w.Chains {
		if o.Name != prev && o.Name != at {
			add("proof-from-"+o.Name, p, o.Name, ckey(p), 0, nil)
		}
	}
	add("proof-of-ack-key", p, prev, host.PacketAcknowledgementKey(p.SourceChain, p.DestinationChain, p.Sequence), 0, nil)
	add("proof-of-other-channel", p, prev, host.PacketCommitmentKey(p.DestinationChain, p.SourceChain, p.Sequence), 0, nil)
	add("proof-height-1", p, prev, ckey(p), -1, nil)
	add("proof-height-2", p, prev, ckey(p), -2, nil)
	add("proof-height+1", p, prev, ckey(p), 1, nil)
	add("proof-height-unknown", p, prev, ckey(p), 1000, nil)
	add("proof-truncated", p, prev, ckey(p), 0, func(b []byte) []byte { return b[:len(b)/2] })
	for _, sh := range proofShapes {
		add(sh.name, p, prev, ckey(p), 0, sh.f)
	}
	add("proof-garbage", p, prev, ckey(p), 0, func(b []byte) []byte { return []byte("garbage-proof-bytes") })
	add("proof-bitflip", p, prev, ckey(p), 0, func(b []byte) []byte { c := append([]byte{}, b...); c[len(c)/2] ^= 0x10; return c })
	add("proof-empty", p, prev, ckey(p), 0, func(b []byte) []byte { return []byte{} })
	// C13 family: port and relay-chain alterations with the proof the altered packet's own previous hop would give
	for _, port := range []string{"tibcmock", "NFT", "MT", "unrouted"} {
		if port == p.Port {
			continue
		}
		q = p
		q.Port = port
		add("port="+port, q, world.ProvingChainForRecv(q, at), ckey(q), 0, nil)
	}
	for _, rc := range append([]string{""}, m.Names...) {
		if rc == p.RelayChain {
			continue
		}
		q = p
		q.RelayChain = rc
		y := world.ProvingChainForRecv(q, at)
		if y == at {
			y = p.SourceChain // relay chain edited to the receiving chain's own name: present the source's proof
		}
		add("relay="+rc, q, y, ckey(q), 0, nil)
		if y != p.SourceChain {
			add("relay="+rc+"-proof-from-source", q, p.SourceChain, ckey(q), 0, nil)
		}
	}
	return out
}

// ackProbes builds the acknowledgement-side probe menu for packet p on chain at.
func (m *PktModel) ackProbes(w *world.World, g Ghost, p packettypes.Packet, at string) []Probe {
	var out []Probe
	signer := w.C(at).Relayer().Addr.String()
	akey := func(q packettypes.Packet) []byte {
		return host.PacketAcknowledgementKey(q.SourceChain, q.DestinationChain, q.Sequence)
	}
	// candidate ack bytes: what the ghost saw written anywhere for this packet, plus forged ones
	type cand struct {
		name string
		bz   []byte
	}
	var acks []cand
	seenAck := map[string]bool{}
	for k, v := range g.AckBytes {
		if strings.HasPrefix(k, pid(p)+"@") && !seenAck[v] {
			seenAck[v] = true
			bz, _ := hex.DecodeString(v)
			acks = append(acks, cand{"written", bz})
		}
	}
	sort.Slice(acks, func(i, j int) bool { return bytes.Compare(acks[i].bz, acks[j].bz) < 0 })
	acks = append(acks,
		cand{"forged-success", packettypes.NewResultAcknowledgement([]byte{1}).GetBytes()},
		cand{"forged-error", packettypes.NewErrorAcknowledgement("forged").GetBytes()},
		cand{"forged-mock", []byte("mock acknowledgement")},
		cand{"forged-other", []byte("x")})
	for k, v := range g.AckBytes { // acks of other packets
		if !strings.HasPrefix(k, pid(p)+"@") && !seenAck[v] {
			seenAck[v] = true
			bz, _ := hex.DecodeString(v)
			acks = append(acks, cand{"other-packets-ack", bz})
			break
		}
	}
	add := func(label string, q packettypes.Packet, ack []byte, proofChain string, key []byte, dh int64, mangle func([]byte) []byte) {
		if w.Idx(proofChain) < 0 {
			return
		}
		proof, ph := proofFrom(w, at, w.C(proofChain), key)
		fresh := dh == 0 && mangle == nil
		if mangle != nil {
			proof = mangle(proof)
		}
		ph = heightPlus(ph, dh)
		legit := legitAck(w, q, ack, at, proofChain, key, fresh)
		orig, isKnown := g.find(q.SourceChain, q.DestinationChain, q.Sequence)
		pr := Probe{Label: fmt.Sprintf("ack[%s]%s@%s", label, pid(p), at), Chain: at,
			Msg: &packettypes.MsgAcknowledgement{Packet: q, Acknowledgement: ack, ProofAcked: proof, ProofHeight: ph, Signer: signer}}
		if w.C(at).CleanPoint(q.SourceChain, q.DestinationChain) >= q.Sequence {
			pr.AlsoFail = "C10"
		}
		altered := isKnown && bytes.Equal(orig.P.Data, q.Data) && (orig.P.Port != q.Port || orig.P.RelayChain != q.RelayChain)
		switch {
		case !legit && !altered:
			pr.MustFail, pr.Signature = "C03", "ack-accepted-without-basis:"+label
		case altered:
			if !legit {
				if pr.AlsoFail == "" {
					pr.AlsoFail = "C03"
				}
			}
			alt := "port"
			if orig.P.RelayChain != q.RelayChain {
				switch {
				case orig.P.RelayChain == "":
					alt = "relay-added(" + relayTarget(orig.P, q) + ")"
				case q.RelayChain == "":
					alt = "relay-removed"
				default:
					alt = "relay-replaced(" + relayTarget(orig.P, q) + ")"
				}
			}
			pr.MustFail, pr.Signature = "C13", "ack-accepted-with-altered-"+alt+roleSuffix(orig.P, q, at)
		case g.AckOK[pid(q)+"@"+at] > 0:
			pr.MustFail, pr.Signature = "C03", "ack-processed-twice:"+label
		default:
			return
		}
		out = append(out, pr)
	}
	next := world.ProvingChainForAck(p, at)
	flip := func(b []byte) []byte { c := append([]byte{}, b...); c[0] ^= 1; return c }
	for _, a := range acks {
		add("ack="+a.name, p, a.bz, next, akey(p), 0, nil)
	}
	var genuine []byte
	if len(acks) > 0 {
		genuine = acks[0].bz
	}
	q := p
	q.Data = flip(p.Data)
	add("data-flip", q, genuine, next, akey(p), 0, nil)
	q = p
	q.Sequence++
	add("seq+1", q, genuine, next, akey(p), 0, nil)
	add("seq+1-own-key", q, genuine, next, akey(q), 0, nil)
	if p.Sequence > 1 {
		q = p
		q.Sequence--
		add("seq-1", q, genuine, next, akey(p), 0, nil)
		add("seq-1-own-key", q, genuine, next, akey(q), 0, nil)
	}
	q = p
	q.SourceChain, q.DestinationChain = p.DestinationChain, p.SourceChain
	add("endpoints-swapped", q, genuine, world.ProvingChainForAck(q, at), akey(p), 0, nil)
	q = p
	q.SourceChain = pctEscape(p.SourceChain)
	add("source-percent-escaped", q, genuine, next, akey(p), 0, nil)
	q = p
	q.DestinationChain = pctEscape(p.DestinationChain)
	add("dest-percent-escaped", q, genuine, next, akey(p), 0, nil)
	add("proof-of-commitment-key", p, genuine, next, host.PacketCommitmentKey(p.SourceChain, p.DestinationChain, p.Sequence), 0, nil)
	add("proof-of-receipt-key", p, genuine, next, host.PacketReceiptKey(p.SourceChain, p.DestinationChain, p.Sequence), 0, nil)
	for _, o := range w.Chains {
		if o.Name != next && o.Name != at {
			add("proof-from-"+o.Name, p, genuine, o.Name, akey(p), 0, nil)
		}
	}
	add("proof-height-1", p, genuine, next, akey(p), -1, nil)
	add("proof-height-2", p, genuine, next, akey(p), -2, nil)
	add("proof-height+1", p, genuine, next, akey(p), 1, nil)
	add("proof-height-unknown", p, genuine, next, akey(p), 1000, nil)
	add("proof-truncated", p, genuine, next, akey(p), 0, func(b []byte) []byte { return b[:len(b)/2] })
	for _, sh := range proofShapes {
		add(sh.name, p, genuine, next, akey(p), 0, sh.f)
	}
	add("proof-garbage", p, genuine, next, akey(p), 0, func(b []byte) []byte { return []byte("garbage-proof-bytes") })
	add("proof-bitflip", p, genuine, next, akey(p), 0, func(b []byte) []byte { c := append([]byte{}, b...); c[len(c)/2] ^= 0x10; return c })
	for _, port := range []string{"tibcmock", "NFT", "MT", "unrouted"} {
		if port == p.Port {
			continue
		}
		q = p
		q.Port = port
		add("port="+port, q, genuine, world.ProvingChainForAck(q, at), akey(q), 0, nil)
	}
	for _, rc := range append([]string{""}, m.Names...) {
		if rc == p.RelayChain {
			continue
		}
		q = p
		q.RelayChain = rc
		y := world.ProvingChainForAck(q, at)
		if y == at {
			y = p.DestinationChain
		}
		add("relay="+rc, q, genuine, y, akey(q), 0, nil)
		if y != p.DestinationChain {
			add("relay="+rc+"-proof-from-dest", q, genuine, p.DestinationChain, akey(q), 0, nil)
		}
	}
	return out
}

// cleanProbes: receive-clean messages that are not backed by the source's clean point must be rejected.
func (m *PktModel) cleanProbes(w *world.World, g Ghost) []Probe {
	var out []Probe
	type ch struct{ src, dst, relay string }
	seen := map[ch]bool{}
	for _, r := range g.Pkts {
		c := ch{r.P.SourceChain, r.P.DestinationChain, r.P.RelayChain}
		if seen[c] {
			continue
		}
		seen[c] = true
		for _, atc := range w.Chains {
			at := atc.Name
			if at == c.src {
				continue
			}
			signer := atc.Relayer().Addr.String()
			for n := uint64(1); n <= m.MaxCleanSeq+1; n++ {
				// the proof-less source-side message sent to a chain that is not the source, naming the real source: there it
				// can only mean the channel (this chain -> destination); it must fail unless that channel may be cleaned up to n
				own := true
				for seq := uint64(1); seq <= n; seq++ {
					r, ok := g.find(at, c.dst, seq)
					if !ok || g.AckOK[pid(r.P)+"@"+at] == 0 {
						own = false
					}
				}
				if !own || n <= atc.CleanPoint(at, c.dst) {
					for _, relay := range []string{c.relay, "", c.src} {
						cp := packettypes.CleanPacket{Sequence: n, SourceChain: c.src, DestinationChain: c.dst, RelayChain: relay}
						out = append(out, Probe{Label: fmt.Sprintf("clean[source-side-message-on-another-chain]%s>%s/%s#%d@%s", c.src, c.dst, relay, n, at), Chain: at,
							Msg:      &packettypes.MsgCleanPacket{CleanPacket: cp, Signer: signer},
							MustFail: "C10", Signature: "clean-accepted-on-a-chain-that-is-not-the-source"})
					}
				}
				for _, relay := range []string{c.relay, ""} {
					cp := packettypes.CleanPacket{Sequence: n, SourceChain: c.src, DestinationChain: c.dst, RelayChain: relay}
					from := c.src
					if cp.DestinationChain == at && cp.RelayChain != "" {
						from = cp.RelayChain
					}
					if w.Idx(from) < 0 || from == at {
						continue
					}
					backed := w.C(from).CleanPoint(c.src, c.dst) == n
					type variant struct {
						name string
						key  []byte
						dh   int64
					}
					vs := []variant{
						{"genuine-key", host.CleanPacketCommitmentKey(c.src, c.dst), 0},
						{"proof-of-commitment-key", host.PacketCommitmentKey(c.src, c.dst, n), 0},
						{"proof-of-reverse-channel", host.CleanPacketCommitmentKey(c.dst, c.src), 0},
						{"stale-height", host.CleanPacketCommitmentKey(c.src, c.dst), -2},
						{"future-height", host.CleanPacketCommitmentKey(c.src, c.dst), 1},
					}
					for _, v := range vs {
						if backed && v.name == "genuine-key" {
							continue // the honest message
						}
						proof, ph := proofFrom(w, at, w.C(from), v.key)
						ph = heightPlus(ph, v.dh)
						out = append(out, Probe{Label: fmt.Sprintf("recvclean[%s]%s>%s/%s#%d@%s", v.name, c.src, c.dst, relay, n, at), Chain: at,
							Msg:      &packettypes.MsgRecvCleanPacket{CleanPacket: cp, ProofCommitment: proof, ProofHeight: ph, Signer: signer},
							MustFail: "C10", Signature: "recvclean-accepted-without-source-clean-point:" + v.name})
					}
				}
			}
		}
	}
	return out
}

// runProbes brings every client in the mounted world up to date (so that genuine proofs at the latest height are
// verifiable and rejections are not vacuous), then submits the probe menu.
func (m *PktModel) runProbes(w *world.World, st PState, counters map[string]int) []explore.Finding {
	var fs []explore.Finding
	for _, on := range w.Chains {
		for _, of := range w.Chains {
			if on != of {
				if r := w.UpdateClient(on, of); !r.OK() {
					panic("probe set-up: client update failed: " + r.Log)
				}
			}
		}
	}
	base := w.Freeze()
	var probes []Probe
	for _, r := range st.G.Pkts {
		for _, c := range w.Chains {
			probes = append(probes, m.recvProbes(w, st.G, r.P, c.Name)...)
			probes = append(probes, m.ackProbes(w, st.G, r.P, c.Name)...)
		}
	}
	if m.Props["C10"] {
		probes = append(probes, m.cleanProbes(w, st.G)...)
	}
	// verbatim replays: every message that was accepted earlier on this path, with its original proof and proof height
	// (still verifiable against the consensus state the client recorded back then)
	for i, r := range st.Rec {
		pr := Probe{Label: fmt.Sprintf("verbatim-replay#%d[%s]", i, r.Label), Chain: r.Chain, Msg: r.Msg}
		switch r.Kind {
		case "recv":
			pr.MustFail, pr.Signature = "C02", "recv-replay-accepted:verbatim-old-proof"
			if w.C(r.Chain).CleanPoint(r.Src, r.Dst) >= r.Seq {
				pr.AlsoFail, pr.Signature = "C10", "recv-accepted-at-or-below-clean-point:verbatim-old-proof"
			}
		case "ack":
			pr.MustFail, pr.Signature = "C03", "ack-processed-twice:verbatim-old-proof"
			if w.C(r.Chain).CleanPoint(r.Src, r.Dst) >= r.Seq {
				pr.AlsoFail = "C10"
			}
		case "recvclean":
			pr.MustFail, pr.Signature = "C10", "recvclean-replayed:verbatim-old-proof"
		}
		probes = append(probes, pr)
	}
	for _, pr := range probes {
		if pr.MustFail == "" || !(m.Props[pr.MustFail] || (pr.AlsoFail != "" && m.Props[pr.AlsoFail]) || (m.Props["C19"] && m.ProbeMode == "tx")) {
			continue
		}
		c := w.C(pr.Chain)
		accepted := false
		detail := ""
		switch m.ProbeMode {
		case "try":
			_, err := w.Try(c, pr.Msg)
			accepted = err == nil
			if dbg := os.Getenv("VERIF_DEBUG"); dbg != "" && strings.Contains(pr.Label, dbg) && err != nil {
				fmt.Fprintf(os.Stderr, "DEBUG probe %s err=%v\n", pr.Label, err)
			}
			if err != nil {
				counters["probe-rejected:"+errClass(err.Error())]++
			}
		case "tx":
			before := c.DumpStores(TokenStores...)
			res := w.Tx(c, c.Accounts[pr.Signer], pr.Msg)
			after := c.DumpStores(TokenStores...)
			accepted = res.OK()
			if !accepted {
				counters["probe-rejected:"+errClass(res.Log)]++
				if d := world.DiffKVs(before, after); len(d) > 0 && m.Props["C19"] {
					fs = append(fs, explore.Finding{Property: "C19", Signature: "failed-message-changed-state:" + strings.SplitN(pr.Label, "]", 2)[0],
						Detail: fmt.Sprintf("rejected (%s) but stores changed: %v", res.Log, d), Probe: pr.Label})
				}
			}
			w.Mount(base)
		}
		counters["probes"]++
		if dbg := os.Getenv("VERIF_DEBUG"); dbg != "" && strings.Contains(pr.Label, dbg) {
			fmt.Fprintf(os.Stderr, "DEBUG probe %s accepted=%v\n", pr.Label, accepted)
		}
		if accepted {
			counters["probes-accepted"]++
			for _, prop := range []string{pr.MustFail, pr.AlsoFail} {
				if prop != "" && m.Props[prop] {
					fs = append(fs, explore.Finding{Property: prop, Signature: pr.Signature,
						Detail: "message accepted although the reference oracle says it must be rejected" + detail, Probe: pr.Label})
				}
			}
		}
	}
	return fs
}
