package props

import (
	"bytes"
	"crypto/sha256"
	"encoding/hex"
	"fmt"
	"os"
	"sort"
	"sync"
	"time"

	cmted25519 "github.com/cometbft/cometbft/crypto/ed25519"
	"github.com/cometbft/cometbft/crypto/tmhash"
	cmtprotoversion "github.com/cometbft/cometbft/proto/tendermint/version"
	cmttypes "github.com/cometbft/cometbft/types"
	cmtversion "github.com/cometbft/cometbft/version"
	sdk "github.com/cosmos/cosmos-sdk/types"

	clienttypes "github.com/bianjieai/tibc-go/modules/tibc/core/02-client/types"
	commitmenttypes "github.com/bianjieai/tibc-go/modules/tibc/core/23-commitment/types"
	ibctm "github.com/bianjieai/tibc-go/modules/tibc/light-clients/07-tendermint/types"

	"verif/mc/explore"
	"verif/mc/report"
	"verif/mc/world"
)

const (
	tmClientName = "tmchainttt"
	tmChainID    = "tmchain-1" // revision format, revision 1
	tmOtherRevID = "tmchain-2"
)

var (
	tmPeriod = 1000 * time.Second
	tmDrift  = 10 * time.Second
	tmT0     = time.Date(2021, 3, 4, 5, 6, 7, 0, time.UTC)
)

type tmVal struct {
	key   cmted25519.PrivKey
	power int64
}

func tmKey(i int) cmted25519.PrivKey { return world.ValKey(fmt.Sprintf("tm-%d", i)) }

func tmSet(vs []tmVal) (*cmttypes.ValidatorSet, []cmted25519.PrivKey) {
	var vals []*cmttypes.Validator
	var keys []cmted25519.PrivKey
	for _, v := range vs {
		vals = append(vals, cmttypes.NewValidator(v.key.PubKey(), v.power))
		keys = append(keys, v.key)
	}
	set := cmttypes.NewValidatorSet(vals)
	return set, world.KeysFor(set, keys)
}

// tmGhostCS is what the reference knows about a stored consensus state.
type tmGhostCS struct {
	Time time.Time
	Next []tmVal // the validator set behind NextValidatorsHash
}

// tmUpdate is one client update attempt.
type tmUpdate struct {
	Trusted   clienttypes.Height // trusted height (revision, height)
	Height    int64
	OtherRev  bool    // the header claims the revision after the trusted one
	Vals      []tmVal // header's validator set
	NextVals  []tmVal
	Signers   uint32 // bit i = validator i of the SORTED set signs
	Forge     bool   // signatures made with the wrong keys
	Time      time.Time
	Now       time.Time
	WrongTV   bool // supplied trusted validators are not the trusted next set
	TVals     []tmVal
	Label     string
	appHashID string
	// Upgrade: not a header update but a governance upgrade of the client to the next revision (history only)
	Upgrade bool
}

func (u tmUpdate) header() *ibctm.Header {
	set, keys := tmSet(u.Vals)
	next, _ := tmSet(u.NextVals)
	rev := u.Trusted.RevisionNumber
	if u.OtherRev {
		rev++
	}
	chainID := fmt.Sprintf("tmchain-%d", rev)
	ah := sha256.Sum256([]byte(fmt.Sprintf("app-%d-%s", u.Height, u.appHashID)))
	hdr := cmttypes.Header{
		Version: cmtprotoversion.Consensus{Block: cmtversion.BlockProtocol, App: 2},
		ChainID: chainID, Height: u.Height, Time: u.Time,
		LastBlockID:        cmttypes.BlockID{Hash: make([]byte, tmhash.Size), PartSetHeader: cmttypes.PartSetHeader{Total: 1, Hash: make([]byte, tmhash.Size)}},
		LastCommitHash:     tmhash.Sum([]byte("lc")),
		DataHash:           tmhash.Sum([]byte("d")),
		ValidatorsHash:     set.Hash(),
		NextValidatorsHash: next.Hash(),
		ConsensusHash:      tmhash.Sum([]byte("c")),
		AppHash:            ah[:],
		LastResultsHash:    tmhash.Sum([]byte("r")),
		EvidenceHash:       tmhash.Sum([]byte("e")),
		ProposerAddress:    set.Validators[0].Address,
	}
	signers := map[int]bool{}
	for i := range set.Validators {
		if u.Signers&(1<<uint(i)) != 0 {
			signers[i] = true
		}
	}
	if u.Forge {
		forged := make([]cmted25519.PrivKey, len(keys))
		for i := range keys {
			forged[i] = tmKey(90 + i)
		}
		keys = forged
	}
	tv, _ := tmSet(u.TVals)
	return world.SignHeader(hdr, set, keys, signers, tv, u.Trusted)
}

// tmState is a client state reached by a history of accepted updates.
type tmState struct {
	History []tmUpdate
	CS      map[clienttypes.Height]tmGhostCS // ghost: stored consensus states
	Latest  clienttypes.Height
}

// headerHeight is the (revision, height) a header update lands on.
func (u tmUpdate) headerHeight() clienttypes.Height {
	rev := u.Trusted.RevisionNumber
	if u.OtherRev {
		rev++
	}
	return clienttypes.NewHeight(rev, uint64(u.Height))
}

type tmScenario struct {
	Name     string
	Powers   []int64
	TrustNum uint64
	TrustDen uint64
}

func (s tmScenario) initial() []tmVal {
	var vs []tmVal
	for i, p := range s.Powers {
		vs = append(vs, tmVal{tmKey(i), p})
	}
	return vs
}

// build replays a history on a fresh branch of chain c and returns the context holding the client.
func (s tmScenario) build(c *world.Chain, hist []tmUpdate) (sdk.Context, error) {
	ctx := c.ReadCtx(tmT0.Add(time.Second))
	ck := c.App.TIBCKeeper.ClientKeeper
	next, _ := tmSet(s.initial())
	cs := ibctm.NewClientState(tmChainID, ibctm.Fraction{Numerator: s.TrustNum, Denominator: s.TrustDen}, tmPeriod, 2*tmPeriod, tmDrift,
		clienttypes.NewHeight(1, 10), commitmenttypes.GetSDKSpecs(), commitmenttypes.MerklePrefix{KeyPrefix: []byte("tibc")}, 0)
	cons := &ibctm.ConsensusState{Timestamp: tmT0, Root: commitmenttypes.NewMerkleRoot([]byte("root")), NextValidatorsHash: next.Hash()}
	if err := ck.CreateClient(ctx, tmClientName, cs, cons); err != nil {
		return ctx, err
	}
	for _, u := range hist {
		if u.Upgrade {
			next, _ := tmSet(u.NextVals)
			h := u.headerHeight()
			ucs := ibctm.NewClientState(fmt.Sprintf("tmchain-%d", h.RevisionNumber), ibctm.Fraction{Numerator: s.TrustNum, Denominator: s.TrustDen}, tmPeriod, 2*tmPeriod, tmDrift,
				h, commitmenttypes.GetSDKSpecs(), commitmenttypes.MerklePrefix{KeyPrefix: []byte("tibc")}, 0)
			ucons := &ibctm.ConsensusState{Timestamp: u.Time, Root: commitmenttypes.NewMerkleRoot([]byte("upgraded")), NextValidatorsHash: next.Hash()}
			if err := ck.UpgradeClient(ctx.WithBlockTime(u.Now), tmClientName, ucs, ucons); err != nil {
				return ctx, fmt.Errorf("history upgrade failed: %w", err)
			}
			continue
		}
		if err := ck.UpdateClient(ctx.WithBlockTime(u.Now), tmClientName, u.header()); err != nil {
			return ctx, fmt.Errorf("history update %s failed: %w", u.Label, err)
		}
	}
	return ctx, nil
}

func tmDump(c *world.Chain, ctx sdk.Context) []world.KV {
	return world.DumpStore(ctx, "tibc", c.App.GetKey("tibc"), []byte("clients/"+tmClientName+"/"))
}

func power(vs []tmVal) int64 {
	var t int64
	for _, v := range vs {
		t += v.power
	}
	return t
}

func sameVals(a, b []tmVal) bool {
	sa, _ := tmSet(a)
	sb, _ := tmSet(b)
	return bytes.Equal(sa.Hash(), sb.Hash())
}

// signedPower returns the power of validators of `of` that signed header u (by identity of key), given u's own sorted set.
func signedPower(u tmUpdate, of []tmVal) int64 {
	set, keys := tmSet(u.Vals)
	var t int64
	for i := range set.Validators {
		if u.Signers&(1<<uint(i)) == 0 {
			continue
		}
		for _, v := range of {
			if bytes.Equal(v.key.PubKey().Address(), keys[i].PubKey().Address()) {
				t += v.power
			}
		}
	}
	return t
}

// tmExpect is the light-client rule over integers. It returns (accept, dontCare).
func (s tmScenario) tmExpect(st tmState, u tmUpdate) (bool, bool) {
	trusted, ok := st.CS[u.Trusted]
	if !ok {
		return false, false
	}
	if u.Forge || u.Signers == 0 {
		return false, false
	}
	if u.OtherRev {
		return false, false
	}
	if uint64(u.Height) <= u.Trusted.RevisionHeight {
		return false, false
	}
	if u.WrongTV || !sameVals(u.TVals, trusted.Next) {
		return false, false
	}
	latest := st.CS[st.Latest]
	dontCare := false
	// client not expired (newest trusted state) and trusted state inside the trusting period
	for _, t := range []time.Time{latest.Time, trusted.Time} {
		exp := t.Add(tmPeriod)
		if exp.Equal(u.Now) {
			dontCare = true
		} else if exp.Before(u.Now) {
			return false, false
		}
	}
	// trusted time < header time < now + drift
	if u.Time.Equal(trusted.Time) || u.Time.Equal(u.Now.Add(tmDrift)) {
		dontCare = true
	}
	if u.Time.Before(trusted.Time) || u.Time.After(u.Now.Add(tmDrift)) {
		return false, false
	}
	// more than two thirds of the header's own set
	own := signedPower(u, u.Vals)
	if 3*own <= 2*power(u.Vals) {
		return false, false
	}
	if uint64(u.Height) == u.Trusted.RevisionHeight+1 {
		if !sameVals(u.Vals, trusted.Next) {
			return false, false
		}
	} else {
		tp := signedPower(u, trusted.Next)
		if uint64(tp)*s.TrustDen <= uint64(power(trusted.Next))*s.TrustNum {
			return false, false
		}
	}
	return true, dontCare
}

// tmProbeMenu is the judged input alphabet in state st.
func (s tmScenario) tmProbeMenu(st tmState, tier string) []tmUpdate {
	var out []tmUpdate
	var heights []clienttypes.Height
	for h := range st.CS {
		heights = append(heights, h)
	}
	sort.Slice(heights, func(i, j int) bool { return heights[i].LT(heights[j]) })
	heights = append(heights, clienttypes.NewHeight(1, 7)) // a height without consensus state
	outsider := func(i int, p int64) tmVal { return tmVal{tmKey(50 + i), p} }
	for _, t := range heights {
		trusted := st.CS[t]
		nextSet := trusted.Next
		if nextSet == nil {
			nextSet = s.initial()
		}
		rels := map[string][]tmVal{"same": nextSet}
		rep := append([]tmVal{}, nextSet...)
		rep[0] = outsider(0, rep[0].power)
		rels["one-replaced"] = rep
		var dis []tmVal
		for i, v := range nextSet {
			dis = append(dis, outsider(i, v.power))
		}
		rels["disjoint"] = dis
		rels["superset"] = append(append([]tmVal{}, nextSet...), outsider(9, 1))
		relNames := []string{"same", "one-replaced", "disjoint", "superset"}
		tTime := trusted.Time
		if tTime.IsZero() {
			tTime = tmT0
		}
		latestTime := st.CS[st.Latest].Time
		comfy := latestTime.Add(100 * time.Second)
		nows := []time.Time{comfy, tTime.Add(tmPeriod - time.Nanosecond), tTime.Add(tmPeriod), tTime.Add(tmPeriod + time.Nanosecond)}
		if tier != "thorough" {
			nows = []time.Time{comfy, tTime.Add(tmPeriod + time.Nanosecond)}
		}
		for _, dh := range []int64{1, 2, 0, -1} {
			H := int64(t.RevisionHeight) + dh
			if H < 1 {
				continue
			}
			for _, other := range []bool{false, true} {
				for _, rn := range relNames {
					vals := rels[rn]
					set, _ := tmSet(vals)
					n := len(set.Validators)
					for mask := uint32(0); mask < 1<<uint(n); mask++ {
						for _, now := range nows {
							times := []time.Time{tTime.Add(time.Nanosecond), tTime, now.Add(tmDrift - time.Nanosecond), now.Add(tmDrift), now.Add(tmDrift + time.Nanosecond)}
							if tier != "thorough" {
								times = []time.Time{tTime.Add(time.Nanosecond), tTime, now.Add(tmDrift + time.Nanosecond)}
							}
							for ti, ht := range times {
								for _, wrong := range []bool{false, true} {
									tv := nextSet
									if wrong {
										tv = rels["one-replaced"]
									}
									u := tmUpdate{Trusted: t, Height: H, OtherRev: other, Vals: vals, NextVals: vals, Signers: mask,
										Time: ht, Now: now, WrongTV: wrong, TVals: tv, appHashID: "probe",
										Label: fmt.Sprintf("trusted=%s height=%d otherRev=%v set=%s signers=%b time#%d now=%s wrongTrusted=%v", t, H, other, rn, mask, ti, now.Sub(tTime), wrong)}
									out = append(out, u)
									if rn == "same" && !wrong && ti == 0 {
										// the header announces a rotated next validator set
										r := u
										r.NextVals = rels["one-replaced"]
										r.Label += " next-set-rotated"
										out = append(out, r)
									}
								}
							}
						}
					}
					// forged signatures, all "signing"
					out = append(out, tmUpdate{Trusted: t, Height: H, OtherRev: other, Vals: vals, NextVals: vals, Signers: 1<<uint(n) - 1, Forge: true,
						Time: tTime.Add(time.Nanosecond), Now: comfy, TVals: nextSet, appHashID: "probe",
						Label: fmt.Sprintf("trusted=%s height=%d otherRev=%v set=%s forged-signatures", t, H, other, rn)})
				}
			}
		}
	}
	return out
}

// tmHistoryMenu is the small alphabet of accepted updates used to reach further client states.
func (s tmScenario) tmHistoryMenu(st tmState) []tmUpdate {
	var out []tmUpdate
	latest := st.CS[st.Latest]
	full := func(vs []tmVal) uint32 { return 1<<uint(len(vs)) - 1 }
	now := latest.Time.Add(60 * time.Second)
	mk := func(label string, trusted clienttypes.Height, h int64, vals []tmVal, at time.Time, now time.Time) tmUpdate {
		return tmUpdate{Trusted: trusted, Height: h, Vals: vals, NextVals: vals, Signers: full(vals), Time: at, Now: now,
			TVals: st.CS[trusted].Next, Label: label, appHashID: label}
	}
	lh := int64(st.Latest.RevisionHeight)
	out = append(out, mk("adjacent", st.Latest, lh+1, latest.Next, latest.Time.Add(30*time.Second), now))
	out = append(out, mk("skip+3", st.Latest, lh+3, latest.Next, latest.Time.Add(40*time.Second), now))
	if len(latest.Next) >= 2 {
		// the validator set rotates at this block: header signed by the current set, announcing another next set
		rot := mk("adjacent-rotating", st.Latest, lh+1, latest.Next, latest.Time.Add(32*time.Second), now)
		nv := append([]tmVal{}, latest.Next...)
		nv[0] = tmVal{tmKey(70 + len(st.History)), nv[0].power}
		rot.NextVals = nv
		out = append(out, rot)
	}
	if st.Latest.RevisionNumber == 1 {
		// governance upgrade to revision 2 (new chain id, heights restart)
		up := tmUpdate{Upgrade: true, OtherRev: true, Trusted: st.Latest, Height: 5, NextVals: latest.Next, Time: latest.Time.Add(50 * time.Second), Now: now,
			Label: "upgrade-to-revision-2"}
		out = append(out, up)
	}
	if len(latest.Next) >= 3 {
		rep := append([]tmVal{}, latest.Next...)
		rep[len(rep)-1] = tmVal{tmKey(60 + len(st.History)), rep[len(rep)-1].power}
		out = append(out, mk("skip+2-one-replaced", st.Latest, lh+2, rep, latest.Time.Add(35*time.Second), now))
	}
	// an update into the past: from the oldest stored state to a height below the latest
	var hs []clienttypes.Height
	for h := range st.CS {
		hs = append(hs, h)
	}
	sort.Slice(hs, func(i, j int) bool { return hs[i].LT(hs[j]) })
	if len(hs) >= 2 && (hs[0].RevisionNumber != hs[1].RevisionNumber || hs[0].RevisionHeight+1 < hs[1].RevisionHeight) {
		old := st.CS[hs[0]]
		out = append(out, mk("past-update", hs[0], int64(hs[0].RevisionHeight)+1, old.Next, old.Time.Add(time.Second), now))
	}
	// a late update that makes the oldest state expire (pruning path)
	out = append(out, mk("late-adjacent", st.Latest, lh+1, latest.Next, latest.Time.Add(tmPeriod-50*time.Second), latest.Time.Add(tmPeriod-40*time.Second)))
	return out
}

// CheckC07: Tendermint header acceptance.
func CheckC07(tier string) int {
	start := time.Now()
	powers := [][]int64{{1}, {2, 1}, {1, 1, 1}, {3, 1, 1}}
	trust := [][2]uint64{{1, 3}, {2, 3}}
	depth := 1
	if tier == "thorough" {
		powers = [][]int64{{1}, {1, 1}, {2, 1}, {1, 1, 1}, {3, 1, 1}, {2, 2, 1}, {1, 1, 1, 1}}
		trust = [][2]uint64{{1, 3}, {1, 2}, {2, 3}}
		depth = 2
	}
	var scen []tmScenario
	for _, p := range powers {
		for _, t := range trust {
			scen = append(scen, tmScenario{Name: fmt.Sprintf("powers=%v trust=%d/%d", p, t[0], t[1]), Powers: p, TrustNum: t[0], TrustDen: t[1]})
		}
	}
	base := world.NewWorld(world.WorldOpts{Names: []string{A}, NoMesh: true})
	init := base.Freeze()

	type job struct {
		sc tmScenario
		st tmState
	}
	var mu sync.Mutex
	var findings []explore.Finding
	evals, accepts, rejects, dontCares, states, transitions := 0, 0, 0, 0, 0, 0
	var samples []any
	addF := func(sc tmScenario, st tmState, sig, detail, probe string) {
		mu.Lock()
		defer mu.Unlock()
		for _, f := range findings {
			if f.Signature == sig {
				return
			}
		}
		var path []string
		path = append(path, "scenario "+sc.Name)
		for _, h := range st.History {
			path = append(path, h.Label)
		}
		findings = append(findings, explore.Finding{Property: "C07", Signature: sig, Detail: detail, Path: path, Probe: probe})
	}

	// BFS over histories per scenario (sequential discovery, parallel probing)
	var jobs []job
	for _, sc := range scen {
		w := base
		w.Mount(init)
		c := w.C(A)
		h0 := clienttypes.NewHeight(1, 10)
		st0 := tmState{CS: map[clienttypes.Height]tmGhostCS{h0: {Time: tmT0, Next: sc.initial()}}, Latest: h0}
		frontier := []tmState{st0}
		seen := map[string]bool{}
		for d := 0; d <= depth; d++ {
			var next []tmState
			for _, st := range frontier {
				ctx, err := sc.build(c, st.History)
				if err != nil {
					panic(err)
				}
				key := fmt.Sprintf("%x", world.HashKVs(tmDump(c, ctx), nil))
				if seen[key] {
					continue
				}
				seen[key] = true
				jobs = append(jobs, job{sc, st})
				states++
				if d == depth {
					continue
				}
				for _, u := range sc.tmHistoryMenu(st) {
					if u.Upgrade {
						ns := tmState{History: append(append([]tmUpdate{}, st.History...), u), CS: map[clienttypes.Height]tmGhostCS{}, Latest: u.headerHeight()}
						for h, v := range st.CS {
							ns.CS[h] = v
						}
						ns.CS[u.headerHeight()] = tmGhostCS{Time: u.Time, Next: u.NextVals}
						transitions++
						next = append(next, ns)
						continue
					}
					want, dc := sc.tmExpect(st, u)
					cctx, _ := ctx.CacheContext()
					err := c.App.TIBCKeeper.ClientKeeper.UpdateClient(cctx.WithBlockTime(u.Now), tmClientName, u.header())
					transitions++
					if dc {
						continue
					}
					if (err == nil) != want {
						addF(sc, st, "history-update-verdict-differs:"+u.Label, fmt.Sprintf("accepted=%v reference=%v err=%v", err == nil, want, err), u.Label)
						continue
					}
					if err != nil {
						continue
					}
					ns := tmState{History: append(append([]tmUpdate{}, st.History...), u), CS: map[clienttypes.Height]tmGhostCS{}, Latest: st.Latest}
					for h, v := range st.CS {
						ns.CS[h] = v
					}
					ns.CS[u.headerHeight()] = tmGhostCS{Time: u.Time, Next: u.NextVals}
					if u.headerHeight().GT(ns.Latest) {
						ns.Latest = u.headerHeight()
					}
					// pruning: a consensus state may disappear only if it had expired at the update's block time
					for h, v := range ns.CS {
						_, found := c.App.TIBCKeeper.ClientKeeper.GetClientConsensusState(cctx, tmClientName, h)
						if !found {
							if v.Time.Add(tmPeriod).After(u.Now) {
								addF(sc, st, "unexpired-consensus-state-removed", fmt.Sprintf("height %s", h), u.Label)
							}
							delete(ns.CS, h)
						}
					}
					next = append(next, ns)
				}
			}
			frontier = next
		}
	}

	// probe every state with the full menu, in parallel
	var wg sync.WaitGroup
	ch := make(chan job, len(jobs))
	for _, j := range jobs {
		ch <- j
	}
	close(ch)
	for k := 0; k < workers(); k++ {
		wg.Add(1)
		go func(k int) {
			defer wg.Done()
			w := base
			if k > 0 {
				w = base.Shadow()
			}
			w.Mount(init)
			c := w.C(A)
			ck := c.App.TIBCKeeper.ClientKeeper
			for j := range ch {
				ctx, err := j.sc.build(c, j.st.History)
				if err != nil {
					panic(err)
				}
				before := tmDump(c, ctx)
				bh := world.HashKVs(before, nil)
				menu := j.sc.tmProbeMenu(j.st, tier)
				ne, na, nr, nd := 0, 0, 0, 0
				for _, u := range menu {
					want, dc := j.sc.tmExpect(j.st, u)
					hdr := u.header()
					cctx, _ := ctx.CacheContext()
					cctx = cctx.WithBlockTime(u.Now)
					err := hdr.ValidateBasic()
					if err == nil {
						err = ck.UpdateClient(cctx, tmClientName, hdr)
					}
					ne++
					got := err == nil
					if got {
						na++
					} else {
						nr++
					}
					if dc {
						nd++
					} else if got != want {
						kind := "invalid-header-accepted"
						if want {
							kind = "valid-header-rejected"
						}
						addF(j.sc, j.st, kind, fmt.Sprintf("%s: accepted=%v reference=%v err=%v", u.Label, got, want, err), u.Label)
					}
					after := tmDump(c, cctx)
					if !got {
						if world.HashKVs(after, nil) != bh {
							addF(j.sc, j.st, "rejected-update-changed-client-store", fmt.Sprint(world.DiffKVs(before, after)), u.Label)
						}
						continue
					}
					// accepted: stored consensus state is the header's; latest never decreases
					csI, found := ck.GetClientConsensusState(cctx, tmClientName, u.headerHeight())
					if !found {
						addF(j.sc, j.st, "accepted-header-not-stored", u.Label, u.Label)
						continue
					}
					cs := csI.(*ibctm.ConsensusState)
					nx, _ := tmSet(u.NextVals)
					if !cs.Timestamp.Equal(u.Time) || !bytes.Equal(cs.NextValidatorsHash, nx.Hash()) || !bytes.Equal(cs.Root.Hash, hdr.Header.AppHash) {
						addF(j.sc, j.st, "stored-consensus-state-differs-from-header", u.Label, u.Label)
					}
					cl, _ := ck.GetClientState(cctx, tmClientName)
					wantLatest := j.st.Latest
					if u.headerHeight().GT(wantLatest) {
						wantLatest = u.headerHeight()
					}
					if !cl.GetLatestHeight().EQ(wantLatest) {
						addF(j.sc, j.st, "latest-height-wrong-after-update", fmt.Sprintf("%s: latest=%s want %s", u.Label, cl.GetLatestHeight(), wantLatest), u.Label)
					}
				}
				mu.Lock()
				evals += ne
				accepts += na
				rejects += nr
				dontCares += nd
				if len(samples) < 6 && len(menu) > 0 {
					samples = append(samples, map[string]any{"scenario": j.sc.Name, "history": histLabels(j.st.History), "input": menu[len(menu)/3].Label})
				}
				mu.Unlock()
			}
		}(k)
	}
	wg.Wait()
	cov := map[string]any{
		"states": states, "transitions": transitions + evals, "traces_validated_against_impl": transitions + evals,
		"evaluations": evals, "distinct_nontrivial": accepts, "rule": "every input of the product alphabet is generated once per client state; non-trivial = inputs the client accepts",
		"accepted": accepts, "rejected": rejects, "dont_care_points": dontCares, "scenarios": len(scen), "history_depth": depth,
		"samples": samples, "exhaustive": true,
		"bounds": fmt.Sprintf("validator power vectors %v; trust levels %v; client states reached by <= %d accepted updates from {adjacent, skip+3, skip+2 with one validator replaced, update into the past, late update that prunes}; per state the full product of trusted height (every stored one + a missing one) x height offset {+1,+2,0,-1} x revision {same,other} x validator set {same, one replaced, disjoint, superset} x every subset of signers (+ forged signatures) x header time x block time x supplied trusted validators {right, wrong}", powers, trust, depth),
	}
	fmt.Fprintf(os.Stderr, "[C07] states=%d evaluations=%d accepted=%d rejected=%d dontcare=%d (%.1fs)\n", states, evals, accepts, rejects, dontCares, time.Since(start).Seconds())
	return report.Finish("C07", tier, start, "model_checking", cov, []string{
		"reference rule over integers: same revision, height above the trusted height, supplied trusted validators hash to the stored next-validators hash, signers hold > 2/3 of the header's own set, adjacent: header set = trusted next set, non-adjacent: signers hold > trust level of the trusted next set, trusted time < header time < block time + drift, trusted and newest state younger than the trusting period; exact-equality time points are counted as don't-care",
		"calls go through Header.ValidateBasic and ClientKeeper.UpdateClient (status check + CheckHeaderAndUpdateState) on a branch of a real chain's store with real ed25519 commits; trusted: cometbft signature and commit verification",
		"trust levels above 2/3 are not enumerated (for adjacent headers wording and upstream rule differ there)",
	}, findings)
}

func histLabels(h []tmUpdate) []string {
	var out []string
	for _, u := range h {
		out = append(out, u.Label)
	}
	return out
}

var _ = hex.EncodeToString
