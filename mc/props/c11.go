package props

import (
	"bytes"
	"fmt"
	"sort"
	"strings"
	"time"

	"verif/mc/explore"
	"verif/mc/world"
)

// ruleAllows is the routing ghost: literal field-wise match with '*' wildcards.
func ruleAllows(rules []string, src, dst, port string) bool {
	for _, r := range rules {
		f := strings.Split(r, ",")
		if len(f) != 3 {
			continue
		}
		ok := true
		for i, v := range []string{src, dst, port} {
			if f[i] != "*" && f[i] != v {
				ok = false
			}
		}
		if ok {
			return true
		}
	}
	return false
}

// RelayStepCheck judges what a relay chain does with traffic passing through (C11).
func RelayStepCheck(rules []string) func(m *PktModel, w *world.World, ev *StepEvent) []explore.Finding {
	return func(m *PktModel, w *world.World, ev *StepEvent) []explore.Finding {
		var fs []explore.Finding
		add := func(sig, detail string) {
			if m.Props["C11"] {
				fs = append(fs, explore.Finding{Property: "C11", Signature: sig, Detail: detail})
			}
		}
		if ev.Kind != "recv" && ev.Kind != "ack" {
			return nil
		}
		p := ev.Pkt
		at := ev.Chain
		id := pid(p)
		ok := ev.Err == nil && ev.Res.OK()
		if p.RelayChain == at.Name {
			// application state of the relay chain is untouched and no application event is emitted
			var nb, na []world.KV
			for _, kv := range ev.Before {
				if kv.Store != "tibc" {
					nb = append(nb, kv)
				}
			}
			for _, kv := range ev.After {
				if kv.Store != "tibc" {
					na = append(na, kv)
				}
			}
			if d := world.DiffKVs(nb, na); len(d) > 0 {
				add("relay-chain-application-state-changed", fmt.Sprint(d))
			}
			for _, e := range ev.Res.Events {
				if e.Type == "non_fungible_token_packet" || e.Type == "multi_token_packet" {
					add("relay-chain-ran-application-logic:"+ev.Kind, e.Type+" emitted on "+at.Name+" for "+id)
					break
				}
			}
		}
		if ev.Kind == "recv" && ok && p.RelayChain == at.Name {
			allowed := ruleAllows(rules, p.SourceChain, p.DestinationChain, p.Port) && w.Idx(p.DestinationChain) >= 0
			com := at.Commitment(p.SourceChain, p.DestinationChain, p.Sequence)
			ackHex, hasAck := ev.GAfter.AckBytes[id+"@"+at.Name]
			if allowed {
				if !bytes.Equal(com, sha(p.Data)) {
					add("allowed-packet-not-recommitted-unchanged", id)
				}
				if hasAck {
					add("allowed-packet-acknowledged-by-relay-chain", id)
				}
			} else {
				if com != nil {
					add("whitelist-not-enforced", id+" re-committed although no rule allows it")
				}
				if !hasAck || !isErrorAck(mustHex(ackHex)) {
					add("refused-packet-without-error-ack", id)
				}
			}
		}
		if ev.Kind == "recv" && !ok && p.RelayChain == at.Name {
			// the honest relayer delivered a packet the source committed: the relay chain either forwards it or answers
			// with an error acknowledgement; refusing the message leaves the packet (and what the sender locked) stuck
			why := "allowed"
			if !ruleAllows(rules, p.SourceChain, p.DestinationChain, p.Port) {
				why = "no-rule"
			} else if w.Idx(p.DestinationChain) < 0 {
				why = "destination-unknown"
			}
			add("relay-chain-refuses-committed-packet:"+why, fmt.Sprintf("%s: %v %s", id, ev.Err, ev.Res.Log))
		}
		if ev.Kind == "ack" && !ok && p.SourceChain == at.Name && p.RelayChain != "" {
			add("ack-from-relay-chain-refused-by-source", fmt.Sprintf("%s: %v %s", id, ev.Err, ev.Res.Log))
		}
		if ev.Kind == "ack" && ok && p.SourceChain == at.Name && p.RelayChain != "" {
			// bytes processed by the source = bytes written on the destination (or by the relay chain if it refused)
			origin := p.DestinationChain
			if _, delivered := ev.GAfter.AckBytes[id+"@"+origin]; !delivered {
				origin = p.RelayChain
			}
			if want := ev.GAfter.AckBytes[id+"@"+origin]; want != fmt.Sprintf("%x", ev.Ack) {
				add("ack-bytes-changed-in-transit", id)
			}
		}
		return fs
	}
}

// projected token state of a chain: NFT holdings with escrow anonymised.
func tokenProjection(w *world.World, names ...string) string {
	var out []string
	for _, n := range names {
		h := NftHoldings(w.C(n))
		for ci, o := range h {
			out = append(out, n+":"+ci+"@"+o)
		}
		mt := MtHoldings(w.C(n))
		for k, v := range mt.Bal {
			out = append(out, fmt.Sprintf("%s:mt:%s=%d", n, k, v))
		}
	}
	sort.Strings(out)
	return strings.Join(out, ";")
}

// relayDifferential runs the canonical relay order of an A->C transfer through B and the same transfer directly and
// compares the token state of A and C at quiescence.
func relayDifferential(rules []string, badReceiver bool) []explore.Finding {
	run := func(relay string) (string, []string) {
		m := nft3("diff", map[string]bool{}, NftScenario{MaxUserTx: 1, Receivers: []int{1}, BadReceiver: badReceiver, Relays: relay != ""}, "")
		m.Setup = func(w *world.World) {
			setRules(w, B, rules)
			a := w.C(A)
			if r := MintNative(w, a, User(a, 1), "cls", "tok1"); !r.OK() {
				panic(r.Log)
			}
		}
		wk := m.NewWorker().(*pktWorker)
		st, _ := m.Init(wk)
		var trace []string
		cur := st.(PState)
		for step := 0; step < 8; step++ {
			succs, _, _ := m.Expand(wk, cur, step, true)
			var pick *explore.Succ
			for i := range succs {
				s := &succs[i]
				if step == 0 {
					want := fmt.Sprintf(">%s/%s:r%d", C, relay, map[bool]int{false: 0, true: 1}[badReceiver])
					if strings.HasPrefix(s.Label, "xfer:") && strings.HasSuffix(s.Label, want) {
						pick = s
					}
				} else if strings.HasPrefix(s.Label, "recv:") || strings.HasPrefix(s.Label, "ack:") {
					if strings.HasSuffix(s.Outcome, ":ok") && pick == nil {
						pick = s
					}
				}
			}
			if pick == nil {
				break
			}
			trace = append(trace, pick.Label+"="+pick.Outcome)
			cur = pick.State.(PState)
		}
		wk.w.Mount(cur.W)
		return tokenProjection(wk.w, A, C), trace
	}
	direct, dt := run("")
	relayed, rt := run(B)
	if direct != relayed {
		return []explore.Finding{{Property: "C11", Signature: fmt.Sprintf("relayed-transfer-differs-from-direct:badReceiver=%v", badReceiver),
			Detail: fmt.Sprintf("direct: %s via %v; relayed: %s via %v", direct, dt, relayed, rt)}}
	}
	return nil
}

// CheckC11: relay chains forward faithfully, enforce the whitelist, run no app logic.
func modelsC11(tier string) ([]*PktModel, []int) {
	props := map[string]bool{"C11": true}
	ruleSets := map[string][]string{
		"no-rules":            {},
		"exact-allow":         {A + "," + C + ",NFT"},
		"allow-all":           {"*,*,*"},
		"other-port-only":     {A + "," + C + ",MT"},
		"other-dest-only":     {A + "," + D + ",*"},
		"wildcard-src-port":   {"*," + C + ",*"},
		"matching-rule-first": {A + "," + C + ",*", "q,r,s", C + "," + A + ",MT"},
		"prefix-of-port":      {A + "," + C + ",NF", A + "," + C + ",tibc", A + "," + C[:len(C)-1] + ",*"},
	}
	var names []string
	for n := range ruleSets {
		names = append(names, n)
	}
	sort.Strings(names)
	var models []*PktModel
	var depth []int
	d := 6
	if tier == "thorough" {
		d = 20
	}
	for _, n := range names {
		rules := ruleSets[n]
		m := nft3("rules="+n, props, NftScenario{MaxUserTx: 2, Receivers: []int{1}, BadReceiver: true, Relays: true}, "")
		m.Setup = func(w *world.World) {
			setRules(w, B, rules)
			a := w.C(A)
			if r := MintNative(w, a, User(a, 1), "cls", "tok1"); !r.OK() {
				panic(r.Log)
			}
		}
		inner := m.UserActions
		m.UserActions = actions(func(m *PktModel, w *world.World, g Ghost) []UserAction {
			// only transfers that start on A, towards C (directly or through B); plus one mock packet through B
			var out []UserAction
			for _, a := range inner(m, w, g) {
				if strings.HasPrefix(a.Label, "xfer:"+A+":") && strings.Contains(a.Label, ">"+C+"/") {
					out = append(out, a)
				}
			}
			return out
		}, MockSendActions([]MockSend{{Label: "mockViaB", Src: A, Dst: C, Relay: B, Data: "m", Max: 1},
			// a destination the relay chain has no client for
			{Label: "mockToUnknownViaB", Src: A, Dst: "zchainzzz", Relay: B, Data: "u", Max: 1}}))
		m.StepCheck = Steps(CoreStepCheck, NftStep, RelayStepCheck(rules))
		models = append(models, m)
		depth = append(depth, d)
	}
	return models, depth
}

func CheckC11(tier string) int {
	models, depth := modelsC11(tier)

	var extra []explore.Finding
	for _, bad := range []bool{false, true} {
		extra = append(extra, relayDifferential([]string{"*,*,*"}, bad)...)
	}
	return RunPktExtra("C11", tier, models, depth, tierBudget(tier, 100*time.Second, 15*time.Minute), append([]string{
		"rule sets on the relay chain: none, exact allow, *,*,*, other port only, other destination only, wildcard source/port, a matching rule followed by two that do not match, rules that are prefixes of the real names; NFT transfers A->C through B to a valid and to an invalid receiver (error acknowledgement on the destination) plus a mock-port packet; all relay orders",
		"routing ghost: literal field-wise match with '*'; the relay chain must re-commit exactly sha256(data) iff allowed, otherwise record an error acknowledgement that the source accepts; its nft/mt/transfer stores stay byte-identical and it emits no application event; the bytes the source processes equal the bytes written where the acknowledgement originated",
		"differential: token state of A and C after the complete relayed transfer equals that after the same direct transfer (valid and invalid receiver)",
	}, commonAssumptions...), extra)
}

func init() {
	PktRegistry["C11"] = func(tier string) []*PktModel { m, _ := modelsC11(tier); return m }
}
