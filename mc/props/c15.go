package props

import (
	"fmt"
	"os"
	"strings"
	"time"

	sdk "github.com/cosmos/cosmos-sdk/types"
	authtypes "github.com/cosmos/cosmos-sdk/x/auth/types"
	govtypes "github.com/cosmos/cosmos-sdk/x/gov/types"

	clienttypes "github.com/bianjieai/tibc-go/modules/tibc/core/02-client/types"
	routingtypes "github.com/bianjieai/tibc-go/modules/tibc/core/26-routing/types"
	"github.com/bianjieai/tibc-go/modules/tibc/core/exported"
	bsctypes "github.com/bianjieai/tibc-go/modules/tibc/light-clients/08-bsc/types"

	"verif/mc/explore"
	"verif/mc/report"
	"verif/mc/world"
)

type c15op struct {
	label  string
	build  func(w *world.World, authority string) sdk.Msg
	kind   string                    // create | upgrade | register | rules | update
	expect func(w *world.World) bool // with the rightful authority: must it take effect? (nil = not judged: "only when")
}

func tibcDump(c *world.Chain) []world.KV { return c.DumpStores("tibc") }

// CheckC15: privileged operations need the right authority and never clobber clients.
func CheckC15(tier string) int {
	start := time.Now()
	gov := authtypes.NewModuleAddress(govtypes.ModuleName).String()
	w := world.NewWorld(world.WorldOpts{Names: []string{A, B, C}})
	a := w.C(A)
	// account roles on A: [0] relayer registered for B and C (mesh set-up); [1] becomes "registered for C only"; [2] arbitrary; [3] unrelated
	relB := a.Accounts[0]
	onlyC := a.Accounts[1]
	arb := a.Accounts[2]
	{
		ctx := a.Ctx()
		a.App.TIBCKeeper.ClientKeeper.RegisterRelayers(ctx, C, []string{relB.Addr.String(), onlyC.Addr.String()})
		// a registry entry for a chain whose name merely starts with B's name
		a.App.TIBCKeeper.ClientKeeper.RegisterRelayers(ctx, B+"2", []string{a.Accounts[3].Addr.String()})
		a.CommitEmpty(w.Tick())
		a.CommitEmpty(w.Tick())
	}
	// keep B and C moving so that fresh headers exist
	for _, n := range []string{B, C} {
		w.C(n).CommitEmpty(w.Tick())
		w.C(n).CommitEmpty(w.Tick())
	}
	tmFor := func(w *world.World, of string) (exported.ClientState, exported.ConsensusState) {
		c := w.C(of)
		return c.ClientStateFor(c.Height())
	}
	bscState := func() (exported.ClientState, exported.ConsensusState) {
		// a well-formed BSC client (the genesis header of the C17 generator: epoch block, three validators in the extra data)
		hdr, vals := bscScenario{N: 3, Epoch: 4}.genesis()
		var vb [][]byte
		for _, v := range sortedAddrs(vals) {
			vb = append(vb, v.Bytes())
		}
		return &bsctypes.ClientState{Header: hdr, ChainId: 56, Epoch: 4, BlockInteval: 3, Validators: vb, ContractAddress: make([]byte, 20), TrustingPeriod: 1 << 30},
			&bsctypes.ConsensusState{Timestamp: hdr.Time, Number: hdr.Height, Root: hdr.Root}
	}
	mkCreate := func(name string, bsc bool, of string) func(w *world.World, authority string) sdk.Msg {
		return func(w *world.World, authority string) sdk.Msg {
			var cs exported.ClientState
			var cons exported.ConsensusState
			if bsc {
				cs, cons = bscState()
			} else {
				cs, cons = tmFor(w, of)
			}
			m, err := clienttypes.NewMsgCreateClient(name, cs, cons, authority)
			must(err)
			m.ChainName, m.Title, m.Description = name, "t", "d"
			return m
		}
	}
	mkUpgrade := func(name string, bsc bool, of string) func(w *world.World, authority string) sdk.Msg {
		return func(w *world.World, authority string) sdk.Msg {
			var cs exported.ClientState
			var cons exported.ConsensusState
			if bsc {
				cs, cons = bscState()
			} else {
				cs, cons = tmFor(w, of)
			}
			acs, err := clienttypes.PackClientState(cs)
			must(err)
			acons, err := clienttypes.PackConsensusState(cons)
			must(err)
			return &clienttypes.MsgUpgradeClient{Title: "t", Description: "d", ChainName: name, ClientState: acs, ConsensusState: acons, Authority: authority}
		}
	}
	has := func(name string) func(w *world.World) bool {
		return func(w *world.World) bool { return w.C(A).ClientStatus(name) != exported.Unknown }
	}
	not := func(f func(w *world.World) bool) func(w *world.World) bool {
		return func(w *world.World) bool { return !f(w) }
	}
	never := func(w *world.World) bool { return false }
	ops := []c15op{
		{"create-new-tendermint-client", mkCreate("nchainnnn", false, C), "create", not(has("nchainnnn"))},
		{"create-new-bsc-client", mkCreate("bscchainb", true, ""), "create", not(has("bscchainb"))},
		{"create-over-existing-client", mkCreate(B, false, C), "create", never},
		{"create-bsc-over-existing-tendermint", mkCreate(B, true, ""), "create", never},
		{"upgrade-existing-same-type", mkUpgrade(B, false, B), "upgrade", nil},
		{"upgrade-existing-other-type", mkUpgrade(B, true, ""), "upgrade", never},
		{"upgrade-unknown-chain", mkUpgrade("uchainuuu", false, B), "upgrade", never},
		{"register-relayer-for-existing-chain", func(w *world.World, authority string) sdk.Msg {
			return &clienttypes.MsgRegisterRelayer{Title: "t", Description: "d", ChainName: B, Relayers: []string{arb.Addr.String()}, Authority: authority}
		}, "register", nil},
		{"register-relayer-for-unknown-chain", func(w *world.World, authority string) sdk.Msg {
			return &clienttypes.MsgRegisterRelayer{Title: "t", Description: "d", ChainName: "uchainuuu", Relayers: []string{arb.Addr.String()}, Authority: authority}
		}, "register", nil},
		{"register-subset-of-relayers", func(w *world.World, authority string) sdk.Msg {
			// C's list is [relB, onlyC]: registering [onlyC] revokes relB
			return &clienttypes.MsgRegisterRelayer{Title: "t", Description: "d", ChainName: C, Relayers: []string{onlyC.Addr.String()}, Authority: authority}
		}, "register", nil},
		{"set-routing-rules", func(w *world.World, authority string) sdk.Msg {
			return &routingtypes.MsgSetRoutingRules{Title: "t", Description: "d", Rules: []string{"x,y,z", "*,*,NFT"}, Authority: authority}
		}, "rules", nil},
		{"set-invalid-routing-rules", func(w *world.World, authority string) sdk.Msg {
			return &routingtypes.MsgSetRoutingRules{Title: "t", Description: "d", Rules: []string{"x,y"}, Authority: authority}
		}, "rules", never},
	}
	type auth struct {
		name string
		addr string
		acc  *world.Account
	}
	auths := []auth{{"governance-authority", gov, nil}, {"relayer-registered-for-this-chain", relB.Addr.String(), &relB},
		{"relayer-registered-for-another-chain", onlyC.Addr.String(), &onlyC}, {"arbitrary-account", arb.Addr.String(), &arb}, {"empty", "", nil}}

	var findings []explore.Finding
	addF := func(path []string, sig, detail string) {
		for _, f := range findings {
			if f.Signature == sig {
				return
			}
		}
		findings = append(findings, explore.Finding{Property: "C15", Signature: sig, Detail: detail, Path: path})
	}
	evals, effects, refusals, txs := 0, 0, 0, 0
	var samples []any

	type node struct {
		st   world.WState
		path []string
	}
	depth := 2
	if tier == "thorough" {
		depth = 5
	}
	seen := map[string]bool{}
	frontier := []node{{w.Freeze(), nil}}
	states := 0
	for d := 0; d <= depth; d++ {
		var next []node
		for _, n := range frontier {
			w.Mount(n.st)
			key := fmt.Sprintf("%x", world.HashKVs(tibcDump(w.C(A)), func(kv world.KV) bool {
				// client heights drift with set-up blocks; registry-relevant content only
				return false
			}))
			// the reference registry (from the governance history) is part of the state's identity: an operation the
			// implementation silently ignores must not merge the state with the one before it
			for _, l := range n.path {
				if strings.HasPrefix(l, "register-") {
					key += "|" + l
				}
			}
			if seen[key] {
				continue
			}
			seen[key] = true
			states++
			before := tibcDump(w.C(A))
			typeOf := map[string]string{}
			for _, name := range []string{B, C, "nchainnnn", "bscchainb"} {
				ctx := w.C(A).ReadCtx(w.Now)
				if cs, ok := w.C(A).App.TIBCKeeper.ClientKeeper.GetClientState(ctx, name); ok {
					typeOf[name] = cs.ClientType()
				}
			}
			// ---- governance-type messages x authorities, handler path (as x/gov executes a passed proposal) and signed-tx path
			for _, op := range ops {
				for _, au := range auths {
					w.Mount(n.st)
					ca := w.C(A)
					var wantEffect *bool
					if au.addr == gov && op.expect != nil {
						v := op.expect(w)
						wantEffect = &v
					}
					msg := op.build(w, au.addr)
					ctx := ca.ReadCtx(w.Now.Add(world.Step))
					h := ca.App.MsgServiceRouter().Handler(msg)
					var err error
					func() {
						defer func() {
							if r := recover(); r != nil {
								err = fmt.Errorf("panic: %v", r)
							}
						}()
						_, err = h(ctx, msg)
					}()
					after := world.DumpStore(ctx, "tibc", ca.App.GetKey("tibc"), nil)
					diff := world.DiffKVs(before, after)
					evals++
					label := op.label + " by " + au.name
					if len(samples) < 4 {
						samples = append(samples, map[string]any{"state": n.path, "message": label})
					}
					if os.Getenv("VERIF_DEBUG") != "" && strings.Contains(op.label, os.Getenv("VERIF_DEBUG")) {
						fmt.Fprintf(os.Stderr, "DEBUG %s by %s: err=%v diff=%d\n", op.label, au.name, err, len(diff))
					}
					effect := err == nil && len(diff) > 0
					if err == nil {
						effects++
					} else {
						refusals++
					}
					if au.addr != gov && err == nil {
						addF(append(n.path, label), "privileged-operation-accepted-from-"+au.name+":"+op.kind, fmt.Sprintf("%s took effect: %v", label, diff))
					}
					if err != nil && len(diff) > 0 {
						// on the handler path a failing message's writes are discarded by BaseApp; the signed path below checks it end to end
						_ = diff
					}
					if wantEffect != nil && *wantEffect != effect {
						if *wantEffect {
							addF(append(n.path, label), "rightful-authority-refused:"+op.label, fmt.Sprintf("err=%v", err))
						} else {
							addF(append(n.path, label), "operation-that-must-be-refused-took-effect:"+op.label, fmt.Sprint(diff))
						}
					}
					if err == nil {
						// never clobber / never change type
						for name, t := range typeOf {
							if cs, ok := ca.App.TIBCKeeper.ClientKeeper.GetClientState(ctx, name); !ok || cs.ClientType() != t {
								addF(append(n.path, label), "client-type-changed-or-client-lost:"+op.kind, name)
							}
						}
						if op.kind == "create" {
							for _, d := range diff {
								_ = d
							}
						}
					}
					// signed transaction path for authorities that have a key
					if au.acc != nil {
						w.Mount(n.st)
						ca = w.C(A)
						res := w.Tx(ca, *au.acc, op.build(w, au.addr))
						txs++
						after := tibcDump(ca)
						if res.OK() {
							addF(append(n.path, label+" (signed tx)"), "privileged-operation-accepted-from-"+au.name+":"+op.kind, res.Log)
						} else if d := world.DiffKVs(before, after); len(d) > 0 {
							addF(append(n.path, label+" (signed tx)"), "refused-request-changed-state:"+op.kind, fmt.Sprint(d))
						}
					}
				}
			}
			// ---- header updates x signers, real transactions
			for _, tg := range [][2]string{{B, B}, {C, C}, {"nchainnnn", C}} { // client name, chain it follows (nchainnnn: created from C's state, nobody registered)
				target := tg[0]
				for _, s := range []struct {
					name string
					acc  world.Account
				}{{"registered-for-" + B + "-and-" + C, relB}, {"registered-for-" + C + "-only", onlyC}, {"unregistered", arb},
					{"registered-for-" + B + "2-only", a.Accounts[3]}} {
					w.Mount(n.st)
					ca := w.C(A)
					of := w.C(tg[1])
					csT, ok := ca.App.TIBCKeeper.ClientKeeper.GetClientState(ca.ReadCtx(w.Now), target)
					if !ok {
						continue
					}
					latest := csT.GetLatestHeight().(clienttypes.Height)
					of.CommitEmpty(w.Tick()) // a header the client has not seen yet
					hdr := of.Header(of.Height(), latest)
					msg, err := clienttypes.NewMsgUpdateClient(target, hdr, s.acc.Addr)
					must(err)
					// reference registry, from the history of governance operations (not from the implementation's lookup)
					reg := map[string][]string{B: {relB.Addr.String()}, C: {relB.Addr.String(), onlyC.Addr.String()}, B + "2": {a.Accounts[3].Addr.String()}}
					for _, l := range n.path {
						switch l {
						case "register-relayer-for-existing-chain":
							reg[B] = []string{arb.Addr.String()}
						case "register-subset-of-relayers":
							reg[C] = []string{onlyC.Addr.String()}
						case "register-relayer-for-unknown-chain":
							reg["uchainuuu"] = []string{arb.Addr.String()}
						}
					}
					registered := false
					for _, r := range reg[target] {
						if r == s.acc.Addr.String() {
							registered = true
						}
					}
					res := w.Tx(ca, s.acc, msg)
					txs++
					evals++
					after := tibcDump(ca)
					label := "update-client-" + target + " by " + s.name
					switch {
					case res.OK() && !registered:
						addF(append(n.path, label), "header-update-accepted-from-unregistered-signer", label)
					case !res.OK() && registered && strings.Contains(res.Log, "unauthorized"):
						addF(append(n.path, label), "header-update-refused-for-registered-relayer", res.Log)
					case !res.OK():
						refusals++
						if d := world.DiffKVs(before, after); len(d) > 0 {
							addF(append(n.path, label), "refused-request-changed-state:update", fmt.Sprint(d))
						}
					default:
						effects++
					}
				}
			}
			if d == depth {
				continue
			}
			// successors: operations by the governance authority that succeed, executed like a passed proposal and committed
			for _, op := range ops {
				w.Mount(n.st)
				ca := w.C(A)
				msg := op.build(w, gov)
				ctx := ca.Ctx()
				cctx, write := ctx.CacheContext()
				if _, err := ca.App.MsgServiceRouter().Handler(msg)(cctx, msg); err != nil {
					ca.CommitEmpty(w.Tick()) // discard the dirty flag by committing nothing new
					continue
				}
				write()
				ca.CommitEmpty(w.Tick())
				ca.CommitEmpty(w.Tick())
				next = append(next, node{w.Freeze(), append(append([]string{}, n.path...), op.label)})
			}
		}
		frontier = next
	}
	cov := map[string]any{
		"states": states, "transitions": evals + txs, "traces_validated_against_impl": evals + txs,
		"evaluations": evals, "took_effect": effects, "refused": refusals, "signed_transactions": txs,
		"samples": samples, "exhaustive": true,
		"bounds": fmt.Sprintf("registry states reachable by <= %d successful governance operations; per state: %d message variants (create new/existing, Tendermint/BSC; upgrade same type/other type/unknown chain; register relayer; set valid/invalid routing rules) x authority {governance module, relayer registered for this chain, relayer of another chain, arbitrary account, empty} on the message-router path and as signed transactions where the authority has a key; MsgUpdateClient for two chains x signer {registered for both, registered for the other chain only, unregistered}", depth, len(ops)),
	}
	fmt.Fprintf(os.Stderr, "[C15] states=%d evaluations=%d effects=%d refusals=%d txs=%d (%.1fs)\n", states, evals, effects, refusals, txs, time.Since(start).Seconds())
	return report.Finish("C15", tier, start, "model_checking", cov, []string{
		"'takes effect' = the message returns no error (and, where judged, the tibc store changed); the statement is 'only when', so refusals of the rightful authority for payload reasons are judged only where the payload is plainly valid (create a new Tendermint client) or must be refused (create over an existing client, upgrade to another type or of an unknown chain, invalid rules)",
		"the governance module account has no key; its messages are executed through the message service router on the block context exactly as x/gov executes a passed proposal",
	}, findings)
}
