package props

import (
	"os"
	"strconv"
	"time"

	"verif/mc/world"
)

var (
	A = world.StdNames[0]
	B = world.StdNames[1]
	C = world.StdNames[2]
	D = world.StdNames[3]
)

// allowAllRouting stores the rule "*,*,*" on chain name through the routing keeper (scenario set-up).
func setRules(w *world.World, name string, rules []string) {
	c := w.C(name)
	if err := c.App.TIBCKeeper.RoutingKeeper.SetRoutingRules(c.Ctx(), rules); err != nil {
		panic(err)
	}
	c.CommitEmpty(w.Tick())
	c.CommitEmpty(w.Tick())
}

// core2 is chains A,B with mock packets both ways.
func core2(name string, props map[string]bool, probe string) *PktModel {
	return &PktModel{Name: name, Names: []string{A, B}, Props: props, ProbeMode: probe,
		UserActions: MockSendActions([]MockSend{
			{Label: "p1", Src: A, Dst: B, Data: "alpha", Max: 2},
			{Label: "p3", Src: B, Dst: A, Data: "gamma", Max: 1},
		}),
		StepCheck: CoreStepCheck}
}

// core3 is chains A,B,C: A->C via B (allowed by rule), A->C direct, C->A via B.
func core3(name string, props map[string]bool, probe string) *PktModel {
	return &PktModel{Name: name, Names: []string{A, B, C}, Props: props, ProbeMode: probe,
		Setup: func(w *world.World) { setRules(w, B, []string{A + "," + C + ",tibcmock"}) },
		UserActions: MockSendActions([]MockSend{
			{Label: "viaB", Src: A, Dst: C, Relay: B, Data: "relayed", Max: 1},
			{Label: "direct", Src: A, Dst: C, Data: "direct", Max: 1},
			{Label: "backViaB", Src: C, Dst: A, Relay: B, Data: "denied", Max: 1}, // not whitelisted on B: error ack path
			{Label: "relayOwn", Src: B, Dst: C, Data: "own", Max: 1},              // the relay chain's own direct traffic to C (same sequence number as viaB)
		}),
		StepCheck: CoreStepCheck}
}

func tierBudget(tier string, quick, thorough time.Duration) time.Duration {
	d := quick
	if tier == "thorough" {
		d = thorough
	}
	// VERIF_BUDGET_SCALE stretches the wall-clock budgets (for runs on a machine that is busy with other work)
	if f, err := strconv.ParseFloat(os.Getenv("VERIF_BUDGET_SCALE"), 64); err == nil && f > 0 {
		d = time.Duration(float64(d) * f)
	}
	return d
}

// RuleChangeAction offers, once, a governance change of a chain's routing rules (executed the way a passed proposal is).
func RuleChangeAction(label, chain string, rules []string) func(m *PktModel, w *world.World, g Ghost) []UserAction {
	return func(m *PktModel, w *world.World, g Ghost) []UserAction {
		if g.Sends[label] > 0 {
			return nil
		}
		return []UserAction{{Label: label, On: chain, Run: func(w *world.World) (*world.Chain, world.TxRes) {
			setRules(w, chain, rules)
			return w.C(chain), world.TxRes{}
		}}}
	}
}

// core3RulesOpenedLater: A sends to C through relay chain B while B's rules refuse the route; at any later moment
// governance opens the rules. A refused packet must stay refused (its error acknowledgement may already have been
// processed by the source), whatever the rules say later.
func core3RulesOpenedLater(name string, props map[string]bool, probe string) *PktModel {
	return &PktModel{Name: name, Names: []string{A, B, C}, Props: props, ProbeMode: probe,
		Setup: func(w *world.World) { setRules(w, B, []string{C + "," + A + ",tibcmock"}) },
		UserActions: actions(MockSendActions([]MockSend{
			{Label: "viaB", Src: A, Dst: C, Relay: B, Data: "relayed", Max: 2},
		}), RuleChangeAction("gov:open-rules@"+B, B, []string{"*,*,*"})),
		StepCheck: CoreStepCheck}
}

// core3UnknownDestination: core3's relayed send plus a packet A sends through relay chain B to a destination B has no
// client for (B answers with an error acknowledgement).
func core3UnknownDestination(name string, props map[string]bool, probe string) *PktModel {
	return &PktModel{Name: name, Names: []string{A, B, C}, Props: props, ProbeMode: probe,
		Setup: func(w *world.World) { setRules(w, B, []string{"*,*,*"}) },
		UserActions: MockSendActions([]MockSend{
			{Label: "viaB", Src: A, Dst: C, Relay: B, Data: "relayed", Max: 1},
			{Label: "toUnknownViaB", Src: A, Dst: "zchainzzz", Relay: B, Data: "nowhere", Max: 1},
		}),
		StepCheck: CoreStepCheck}
}
