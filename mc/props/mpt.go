package props

import (
	"encoding/hex"
	"encoding/json"
	"math/big"

	"github.com/ethereum/go-ethereum/common"
	"github.com/ethereum/go-ethereum/core/rawdb"
	"github.com/ethereum/go-ethereum/core/types"
	"github.com/ethereum/go-ethereum/crypto"
	"github.com/ethereum/go-ethereum/light"
	"github.com/ethereum/go-ethereum/rlp"
	"github.com/ethereum/go-ethereum/trie"
)

// EthWorld is a real go-ethereum state: a secure account trie with one contract account whose secure storage trie holds
// the TIBC mapping at slot index 104, exactly as eth_getProof sees it.
type EthWorld struct {
	Contract common.Address
	Other    common.Address
	storage  map[string][]byte // path -> 32-byte word (untrimmed)
	Root     common.Hash
	accounts *trie.SecureTrie
	stor     *trie.SecureTrie
	storRoot common.Hash
	otherSt  *trie.SecureTrie
	otherRt  common.Hash
}

// SlotOf is the protocol-defined storage slot of a TIBC path: keccak(path || pad32(104)).
func SlotOf(path []byte) []byte {
	return crypto.Keccak256(path, common.LeftPadBytes(big.NewInt(104).Bytes(), 32))
}

func trimLeft(b []byte) []byte {
	i := 0
	for i < len(b) && b[i] == 0 {
		i++
	}
	return b[i:]
}

// NewEthWorld builds the tries for the given path -> word mapping.
func NewEthWorld(kv map[string][]byte) *EthWorld {
	w := &EthWorld{Contract: common.HexToAddress("0x00000000000000000000000000000000000c0de1"),
		Other: common.HexToAddress("0x00000000000000000000000000000000000c0de2"), storage: kv}
	db := trie.NewDatabase(rawdb.NewMemoryDatabase())
	build := func(m map[string][]byte) (*trie.SecureTrie, common.Hash) {
		st, _ := trie.NewSecure(common.Hash{}, db)
		for path, word := range m {
			v, _ := rlp.EncodeToBytes(trimLeft(common.LeftPadBytes(word, 32)))
			st.Update(SlotOf([]byte(path)), v)
		}
		// noise so that proofs have several levels
		for i := 0; i < 40; i++ {
			v, _ := rlp.EncodeToBytes([]byte{byte(i + 1)})
			st.Update(crypto.Keccak256([]byte{byte(i), 0x77}), v)
		}
		root, _, _ := st.Commit(nil)
		return st, root
	}
	w.stor, w.storRoot = build(kv)
	w.otherSt, w.otherRt = build(map[string][]byte{"other": {1}})
	w.accounts, _ = trie.NewSecure(common.Hash{}, db)
	put := func(a common.Address, nonce uint64, root common.Hash) {
		acc := &types.StateAccount{Nonce: nonce, Balance: big.NewInt(int64(nonce) * 1000), Root: root, CodeHash: crypto.Keccak256([]byte("code"))}
		bz, _ := rlp.EncodeToBytes(acc)
		w.accounts.Update(a.Bytes(), bz)
	}
	put(w.Contract, 1, w.storRoot)
	put(w.Other, 2, w.otherRt)
	for i := 0; i < 30; i++ {
		put(common.BytesToAddress(crypto.Keccak256([]byte{byte(i)})), uint64(i+3), common.Hash{})
	}
	w.Root, _, _ = w.accounts.Commit(nil)
	return w
}

// EthProof mirrors the JSON proof the BSC/ETH clients parse (eth_getProof format).
type EthProof struct {
	Address      string          `json:"address"`
	Balance      string          `json:"balance"`
	CodeHash     string          `json:"code_hash"`
	Nonce        string          `json:"nonce"`
	StorageHash  string          `json:"storage_hash"`
	AccountProof []string        `json:"account_proof"`
	StorageProof []EthStorageRes `json:"storage_proof"`
}

// EthStorageRes is one storage proof.
type EthStorageRes struct {
	Key   string   `json:"key"`
	Value string   `json:"value"`
	Proof []string `json:"proof"`
}

func hexList(nl light.NodeList) []string {
	var out []string
	for _, n := range nl {
		out = append(out, "0x"+hex.EncodeToString(n))
	}
	return out
}

// Proof builds the canonical eth_getProof answer for a TIBC path (present or absent) of the contract account.
func (w *EthWorld) Proof(path []byte) EthProof {
	return w.proofFor(w.Contract, w.stor, w.storRoot, 1, SlotOf(path))
}

// OtherAccountProof is a proof about the other account's storage.
func (w *EthWorld) OtherAccountProof(path []byte) EthProof {
	return w.proofFor(w.Other, w.otherSt, w.otherRt, 2, SlotOf(path))
}

func (w *EthWorld) proofFor(addr common.Address, st *trie.SecureTrie, root common.Hash, nonce uint64, slot []byte) EthProof {
	var ap, sp light.NodeList
	// SecureTrie.Prove does not hash the key itself (go-ethereum's GetProof passes the hashed key)
	_ = w.accounts.Prove(crypto.Keccak256(addr.Bytes()), 0, &ap)
	_ = st.Prove(crypto.Keccak256(slot), 0, &sp)
	val := st.Get(slot)
	return EthProof{
		Address:      addr.Hex(),
		Balance:      "0x" + big.NewInt(int64(nonce)*1000).Text(16),
		CodeHash:     "0x" + hex.EncodeToString(crypto.Keccak256([]byte("code"))),
		Nonce:        "0x" + big.NewInt(int64(nonce)).Text(16),
		StorageHash:  root.Hex(),
		AccountProof: hexList(ap),
		StorageProof: []EthStorageRes{{Key: "0x" + hex.EncodeToString(slot), Value: "0x" + hex.EncodeToString(val), Proof: hexList(sp)}},
	}
}

// JSON marshals the proof.
func (p EthProof) JSON() []byte {
	bz, _ := json.Marshal(p)
	return bz
}

// Stored returns the 32-byte word stored at path (nil if absent).
func (w *EthWorld) Stored(path string) []byte {
	v, ok := w.storage[path]
	if !ok {
		return nil
	}
	return common.LeftPadBytes(v, 32)
}
