package props

import (
	"fmt"
	"os"
	"strconv"
	"strings"
	"time"

	sdk "github.com/cosmos/cosmos-sdk/types"

	packettypes "github.com/bianjieai/tibc-go/modules/tibc/core/04-packet/types"

	"verif/mc/explore"
	"verif/mc/world"
)

// CleanStepCheck judges clean transitions and the monotonicity of clean points (C10).
func CleanStepCheck(m *PktModel, w *world.World, ev *StepEvent) []explore.Finding {
	var fs []explore.Finding
	add := func(sig, detail string) {
		if m.Props["C10"] {
			fs = append(fs, explore.Finding{Property: "C10", Signature: sig, Detail: detail})
		}
	}
	if ev.Before == nil || ev.After == nil {
		return nil
	}
	bm, am := map[string][]byte{}, map[string][]byte{}
	for _, kv := range ev.Before {
		if !skipClients(kv) { // the honest relay step updates the verifying client first
			bm[kv.Store+"|"+string(kv.K)] = kv.V
		}
	}
	for _, kv := range ev.After {
		if !skipClients(kv) {
			am[kv.Store+"|"+string(kv.K)] = kv.V
		}
	}
	// clean points never decrease, on any transition
	for k, v := range bm {
		if strings.HasPrefix(k, "tibc|clean/") {
			nv, ok := am[k]
			if !ok || beUint(nv) < beUint(v) {
				add("clean-point-decreased", fmt.Sprintf("%s: %d -> %d", k, beUint(v), beUint(nv)))
			}
		}
	}
	if ev.Kind != "clean" && ev.Kind != "recvclean" {
		// only clean messages may remove receipts / acknowledgements
		for k := range bm {
			if _, ok := am[k]; !ok && (strings.HasPrefix(k, "tibc|receipts/") || strings.HasPrefix(k, "tibc|acks/")) {
				add("receipt-or-ack-removed-by-non-clean-message", k+" by "+ev.Label)
			}
		}
		return fs
	}
	if ev.Err != nil || !ev.Res.OK() {
		return fs
	}
	cp := ev.Clean
	ch := cp.SourceChain + "/" + cp.DestinationChain
	n := cp.Sequence
	prevKey := "tibc|clean/" + ch
	prev := beUint(bm[prevKey])
	if ev.Kind == "clean" {
		// reference rule on the source, from the ghost: N above the previous clean point, every sequence 1..N sent and acknowledged here
		if n <= prev {
			add("clean-accepted-not-above-clean-point", fmt.Sprintf("N=%d prev=%d", n, prev))
		}
		maxAcked := uint64(0)
		for seq := uint64(1); ; seq++ {
			r, ok := ev.GBefore.find(cp.SourceChain, cp.DestinationChain, seq)
			if !ok {
				break
			}
			if ev.GBefore.AckOK[pid(r.P)+"@"+cp.SourceChain] > 0 && seq > maxAcked {
				maxAcked = seq
			}
		}
		if n > maxAcked {
			add("clean-accepted-above-highest-acknowledged", fmt.Sprintf("N=%d highest acked=%d", n, maxAcked))
		}
		for seq := uint64(1); seq <= n; seq++ {
			r, ok := ev.GBefore.find(cp.SourceChain, cp.DestinationChain, seq)
			if !ok || ev.GBefore.AckOK[pid(r.P)+"@"+cp.SourceChain] == 0 {
				add("clean-accepted-with-unacknowledged-packet", fmt.Sprintf("N=%d, sequence %d not acknowledged", n, seq))
				break
			}
		}
	} else {
		// elsewhere: the previous hop must hold clean point N
		fromName := cp.SourceChain
		if cp.DestinationChain == ev.Chain.Name && cp.RelayChain != "" {
			fromName = cp.RelayChain
		}
		if w.C(fromName).CleanPoint(cp.SourceChain, cp.DestinationChain) != n {
			add("recvclean-accepted-without-source-clean-point:honest-step", fmt.Sprintf("N=%d", n))
		}
	}
	cleanEffects(bm, am, ch, n, ev.Kind == "recvclean", add)
	return fs
}

func beUint(b []byte) uint64 {
	var v uint64
	for _, x := range b {
		v = v<<8 | uint64(x)
	}
	return v
}

// cleanEffects judges what an accepted clean of channel ch up to n changed: the clean point is n, the only other changes
// are deletions of that channel's receipts and acknowledgements with sequence <= n, and where receipts and
// acknowledgements are kept (recvSide) none at or below n is left.
func cleanEffects(bm, am map[string][]byte, ch string, n uint64, recvSide bool, add func(sig, detail string)) {
	prevKey := "tibc|clean/" + ch
	if beUint(am[prevKey]) != n {
		add("accepted-clean-did-not-set-clean-point", fmt.Sprintf("N=%d stored=%d", n, beUint(am[prevKey])))
	}
	// the diff of an accepted clean is within {clean key, receipts <= N, acks <= N} of that channel
	for k, v := range bm {
		nv, ok := am[k]
		if ok && string(nv) == string(v) {
			continue
		}
		if k == prevKey {
			continue
		}
		okDel := false
		for _, pre := range []string{"tibc|receipts/" + ch + "/sequences/", "tibc|acks/" + ch + "/sequences/"} {
			if strings.HasPrefix(k, pre) {
				if s, err := strconv.ParseUint(strings.TrimPrefix(k, pre), 10, 64); err == nil && s <= n && !ok {
					okDel = true
				}
			}
		}
		if !okDel {
			add("clean-touched-other-state", k)
		}
	}
	for k := range am {
		if _, ok := bm[k]; !ok && k != prevKey {
			add("clean-touched-other-state", "+"+k)
		}
	}
	// cleaning removes receipts and acknowledgements up to N on chains that hold them
	if recvSide {
		for k := range am {
			for _, pre := range []string{"tibc|receipts/" + ch + "/sequences/", "tibc|acks/" + ch + "/sequences/"} {
				if strings.HasPrefix(k, pre) {
					if s, err := strconv.ParseUint(strings.TrimPrefix(k, pre), 10, 64); err == nil && s <= n {
						add("clean-left-receipt-or-ack-behind", k)
					}
				}
			}
		}
	}
}

// crossChannelCleans: four channels that share chains in different roles — X = A->B direct, Y = A->C through relay
// chain B, Z = B->C direct, W = C->A through relay chain B: B is destination of X, relay chain of Y and W, source of Z;
// C is destination of Y and Z and source of W. Two packets on each are delivered
// and acknowledged. Then each channel is cleaned up to N in {1,2} hop by hop; on every chain the clean passes what it
// changed is compared with the rule (only that channel's receipts and acknowledgements up to N and its clean point),
// and afterwards every original receive message of every channel is replayed verbatim on the chain that accepted it.
func crossChannelCleans() []explore.Finding {
	base := world.NewWorld(world.WorldOpts{Names: []string{A, B, C}})
	setRules(base, B, []string{"*,*,*"})
	type chanSpec struct{ name, src, dst, relay string }
	chans := []chanSpec{{"X", A, B, ""}, {"Y", A, C, B}, {"Z", B, C, ""}, {"W", C, A, B}}
	type sent struct {
		msg sdk.Msg
		at  string
		id  string
	}
	var recvs []sent
	mockAck := []byte("mock acknowledgement")
	for _, ch := range chans {
		for seq := uint64(1); seq <= 2; seq++ {
			p := packettypes.NewPacket([]byte(fmt.Sprintf("%s-%d", ch.name, seq)), seq, ch.src, ch.dst, ch.relay, "tibcmock")
			if err := base.SendMock(base.C(ch.src), p); err != nil {
				return setUpRefused("cross-channel", fmt.Sprintf("send %s#%d", ch.name, seq), false, err.Error())
			}
			hops := route(p)
			for i := 1; i < len(hops); i++ {
				if r, err := base.RelayRecv(p, base.C(hops[i])); err != nil || !r.OK() {
					return setUpRefused("cross-channel", fmt.Sprintf("recv %s#%d@%s", ch.name, seq, hops[i]), true, fmt.Sprint(err, " ", r.Log))
				}
				recvs = append(recvs, sent{base.LastMsg, hops[i], fmt.Sprintf("%s#%d@%s", ch.name, seq, hops[i])})
			}
			for i := len(hops) - 2; i >= 0; i-- {
				if r, err := base.RelayAck(p, mockAck, base.C(hops[i])); err != nil || !r.OK() {
					return setUpRefused("cross-channel", fmt.Sprintf("ack %s#%d@%s", ch.name, seq, hops[i]), false, fmt.Sprint(err, " ", r.Log))
				}
			}
		}
	}
	ready := base.Freeze()
	type plan struct {
		ch chanSpec
		n  uint64
	}
	var plans []plan
	for _, ch := range chans {
		for n := uint64(1); n <= 2; n++ {
			plans = append(plans, plan{ch, n})
		}
	}
	fs := RunScripts(base, ready, len(plans), func(i int, w *world.World) []explore.Finding {
		pl := plans[i]
		var out []explore.Finding
		path := []string{"cross-channel", "X=A>B, Y=A>C via B, Z=B>C, W=C>A via B: two packets each, delivered and acknowledged", fmt.Sprintf("clean %s up to %d, hop by hop", pl.ch.name, pl.n)}
		add := func(sig, detail string) {
			out = append(out, explore.Finding{Property: "C10", Signature: sig + ":cross-channel", Detail: fmt.Sprintf("clean(%s,%d): %s", pl.ch.name, pl.n, detail), Path: path})
		}
		dump := func(c *world.Chain) map[string][]byte {
			m := map[string][]byte{}
			for _, kv := range c.DumpStores("tibc") {
				if !skipClients(kv) {
					m[kv.Store+"|"+string(kv.K)] = kv.V
				}
			}
			return m
		}
		cp := packettypes.CleanPacket{Sequence: pl.n, SourceChain: pl.ch.src, DestinationChain: pl.ch.dst, RelayChain: pl.ch.relay}
		src := w.C(pl.ch.src)
		before := dump(src)
		if r := w.Tx(src, src.Relayer(), &packettypes.MsgCleanPacket{CleanPacket: cp, Signer: src.Relayer().Addr.String()}); !r.OK() {
			add("rightful-clean-refused", "on the source: "+r.Log)
			return out
		}
		chName := pl.ch.src + "/" + pl.ch.dst
		cleanEffects(before, dump(src), chName, pl.n, false, add)
		hops := []string{pl.ch.src, pl.ch.dst}
		if pl.ch.relay != "" {
			hops = []string{pl.ch.src, pl.ch.relay, pl.ch.dst}
		}
		for _, h := range hops[1:] {
			at := w.C(h)
			before = dump(at)
			if r, err := w.RelayClean(cp, at); err != nil || !r.OK() {
				add("rightful-clean-refused", fmt.Sprintf("receive-clean on %s: %v %s", h, err, r.Log))
				return out
			}
			cleanEffects(before, dump(at), chName, pl.n, true, add)
		}
		for _, r := range recvs {
			if _, err := w.Try(w.C(r.at), r.msg); err == nil {
				add("recv-replay-accepted:verbatim-old-proof", "original MsgRecvPacket "+r.id+" accepted again")
			}
		}
		return out
	})
	ExtraCoverage["cross_channel"] = map[string]any{"channels": len(chans), "clean_plans": len(plans), "verbatim_replays_after_cleaning": len(plans) * len(recvs)}
	return fs
}

// setUpRefused turns a refused honest step during the set-up of a scripted scenario into a finding: a committed packet
// the next hop refuses is a violation of C02's second sentence; a refused send or acknowledgement only means the script
// cannot run (the graph explorations judge those steps).
func setUpRefused(script, step string, isRecv bool, detail string) []explore.Finding {
	fmt.Fprintf(os.Stderr, "[%s] set-up step refused: %s: %s\n", script, step, detail)
	if !isRecv {
		return nil
	}
	return []explore.Finding{{Property: "C02", Signature: "fresh-packet-refused:" + script, Detail: step + ": " + detail, Path: []string{script, step}}}
}

// CheckC10: cleanup.
func modelsC10(tier string) ([]*PktModel, []int) {
	props := map[string]bool{"C10": true}
	mk := func(name string, relay string, max int) *PktModel {
		m := &PktModel{Name: name, Names: []string{A, B, C}, Props: props, ProbeMode: "try",
			Setup:       func(w *world.World) { setRules(w, B, []string{"*,*,*"}) },
			UserActions: MockSendActions([]MockSend{{Label: "p", Src: A, Dst: C, Relay: relay, Data: "pkt", Max: max}}),
			StepCheck:   Steps(CoreStepCheck, CleanStepCheck)}
		return withCleans(m, uint64(max)+1)
	}
	models := []*PktModel{mk("direct-3-packets", "", 3), mk("via-relay-2-packets", B, 2)}
	depth := []int{11, 10}
	if tier == "thorough" {
		models = []*PktModel{mk("direct-3-packets", "", 3), mk("via-relay-3-packets", B, 3), mk("direct-4-packets", "", 4), mk("via-relay-4-packets", B, 4)}
		depth = []int{14, 14, 13, 12}
	}
	return models, depth
}

func CheckC10(tier string) int {
	models, depth := modelsC10(tier)

	return RunPktExtra("C10", tier, models, depth, tierBudget(tier, 100*time.Second, 15*time.Minute), append([]string{
		"clean(N) is offered on the source for every N in 1..max+1 in every state; accepted cleans are judged against the ghost (which sequences were sent and acknowledged on the source); receive-clean messages without the source's clean point behind them are probes that must be rejected",
		"in all descendant states every packet and acknowledgement at or below a clean point is re-submitted with a fresh proof and must be rejected",
		"long channel (scripted): 12 packets sent and delivered on one channel, every set of at most two unacknowledged sequences, clean(N) for every N in 1..13 judged against the same rule (two-digit sequence numbers, where decimal keys sort differently from numbers)",
	}, commonAssumptions...), onlyProperty("C10", append(longChannelCleans(tier), crossChannelCleans()...)))
}

func init() {
	PktRegistry["C10"] = func(tier string) []*PktModel { m, _ := modelsC10(tier); return m }
}

// longChannelCleans: a channel with two-digit sequence numbers. For every set U of at most two unacknowledged sequences
// and every N, a clean request accepted on the source must satisfy the reference rule.
func longChannelCleans(tier string) []explore.Finding {
	const n = 12
	base := world.NewWorld(world.WorldOpts{Names: []string{A, B}})
	a, b := base.C(A), base.C(B)
	var pkts []packettypes.Packet
	for i := uint64(1); i <= n; i++ {
		p := packettypes.NewPacket([]byte(fmt.Sprintf("long-%d", i)), i, A, B, "", "tibcmock")
		if err := base.SendMock(a, p); err != nil {
			return setUpRefused("long-channel", fmt.Sprintf("send #%d", i), false, err.Error())
		}
		pkts = append(pkts, p)
	}
	var recvMsgs, ackMsgs []sdk.Msg
	for _, p := range pkts {
		if r, err := base.RelayRecv(p, b); err != nil || !r.OK() {
			return setUpRefused("long-channel", fmt.Sprintf("recv #%d", p.Sequence), true, fmt.Sprint(err, " ", r.Log))
		}
		recvMsgs = append(recvMsgs, base.LastMsg)
	}
	delivered := base.Freeze()
	// second part: all twelve acknowledged, then cleaned in one or two stages; what each clean removes is compared with
	// the rule, and every original receive / acknowledgement message is replayed verbatim afterwards
	for _, p := range pkts {
		if r, err := base.RelayAck(p, []byte("mock acknowledgement"), a); err != nil || !r.OK() {
			return setUpRefused("long-channel", fmt.Sprintf("ack #%d", p.Sequence), false, fmt.Sprint(err, " ", r.Log))
		}
		ackMsgs = append(ackMsgs, base.LastMsg)
	}
	acked := base.Freeze()
	type stages struct{ n1, n2 uint64 }
	var plans []stages
	for n1 := uint64(0); n1 < n; n1++ {
		for n2 := n1 + 1; n2 <= n; n2++ {
			plans = append(plans, stages{n1, n2})
		}
	}
	effects := RunScripts(base, acked, len(plans), func(i int, w *world.World) []explore.Finding {
		pl := plans[i]
		wa, wb := w.C(A), w.C(B)
		var out []explore.Finding
		path := []string{"long-channel", "12 packets delivered and acknowledged", fmt.Sprintf("clean(%d) then clean(%d), each relayed to the destination", pl.n1, pl.n2)}
		add := func(sig, detail string) {
			out = append(out, explore.Finding{Property: "C10", Signature: sig + ":long-channel", Detail: fmt.Sprintf("stages %d,%d: %s", pl.n1, pl.n2, detail), Path: path})
		}
		dump := func(c *world.Chain) map[string][]byte {
			m := map[string][]byte{}
			for _, kv := range c.DumpStores("tibc") {
				if !skipClients(kv) {
					m[kv.Store+"|"+string(kv.K)] = kv.V
				}
			}
			return m
		}
		for _, N := range []uint64{pl.n1, pl.n2} {
			if N == 0 {
				continue
			}
			cp := packettypes.CleanPacket{Sequence: N, SourceChain: A, DestinationChain: B}
			before := dump(wa)
			r := w.Tx(wa, wa.Relayer(), &packettypes.MsgCleanPacket{CleanPacket: cp, Signer: wa.Relayer().Addr.String()})
			if !r.OK() {
				add("rightful-clean-refused", fmt.Sprintf("clean(%d) on the source: %s", N, r.Log))
				return out
			}
			cleanEffects(before, dump(wa), A+"/"+B, N, false, add)
			before = dump(wb)
			r, err := w.RelayClean(cp, wb)
			if err != nil || !r.OK() {
				add("rightful-clean-refused", fmt.Sprintf("receive-clean(%d) on the destination: %v %s", N, err, r.Log))
				return out
			}
			cleanEffects(before, dump(wb), A+"/"+B, N, true, add)
		}
		for k, m := range recvMsgs {
			if _, err := w.Try(wb, m); err == nil {
				sig := "recv-accepted-at-or-below-clean-point:verbatim-old-proof"
				if uint64(k+1) > pl.n2 {
					sig = "recv-replay-accepted:verbatim-old-proof"
				}
				add(sig, fmt.Sprintf("original MsgRecvPacket of sequence %d accepted again", k+1))
			}
		}
		for k, m := range ackMsgs {
			if _, err := w.Try(wa, m); err == nil {
				add("ack-replay-accepted:verbatim-old-proof", fmt.Sprintf("original MsgAcknowledgement of sequence %d accepted again", k+1))
			}
		}
		return out
	})
	var subsets [][]uint64
	subsets = append(subsets, nil)
	for i := uint64(1); i <= n; i++ {
		subsets = append(subsets, []uint64{i})
		for j := i + 1; j <= n; j++ {
			subsets = append(subsets, []uint64{i, j})
		}
	}
	if tier != "thorough" {
		// quick: every single unacknowledged sequence, and pairs that straddle the one-digit / two-digit boundary
		var q [][]uint64
		for _, u := range subsets {
			if len(u) < 2 || (u[0] <= 3 && u[1] >= 9) {
				q = append(q, u)
			}
		}
		subsets = q
	}
	attempts, accepted := 0, 0
	fs := RunScripts(base, delivered, len(subsets), func(i int, w *world.World) []explore.Finding {
		u := subsets[i]
		un := map[uint64]bool{}
		for _, s := range u {
			un[s] = true
		}
		wa, wb := w.C(A), w.C(B)
		maxAcked := uint64(0)
		for _, p := range pkts {
			if un[p.Sequence] {
				continue
			}
			if r, err := w.RelayAck(p, []byte("mock acknowledgement"), wa); err != nil || !r.OK() {
				panic(fmt.Sprint("long channel set-up: ack failed ", err, r.Log))
			}
			maxAcked = p.Sequence
		}
		_ = wb
		var out []explore.Finding
		for N := uint64(1); N <= n+1; N++ {
			msg := &packettypes.MsgCleanPacket{CleanPacket: packettypes.CleanPacket{Sequence: N, SourceChain: A, DestinationChain: B}, Signer: wa.Relayer().Addr.String()}
			_, err := w.Try(wa, msg)
			ok := true
			for s := uint64(1); s <= N; s++ {
				if un[s] {
					ok = false
				}
			}
			rule := N <= maxAcked && ok
			if err == nil && !rule {
				out = append(out, explore.Finding{Property: "C10", Signature: "clean-accepted-with-unacknowledged-packet:long-channel",
					Detail: fmt.Sprintf("12 packets delivered, unacknowledged %v (highest acknowledged %d): clean(%d) accepted on the source", u, maxAcked, N),
					Path:   []string{"long-channel", fmt.Sprintf("unacknowledged=%v", u), fmt.Sprintf("clean(%d)", N)}})
			}
			_ = i
		}
		return out
	})
	for range subsets {
		attempts += n + 1
	}
	_ = accepted
	ExtraCoverage["long_channel"] = map[string]any{"packets": n, "unacknowledged_sets": len(subsets), "clean_attempts": attempts,
		"two_stage_clean_plans": len(plans), "verbatim_replays_after_cleaning": len(plans) * 2 * n}
	return append(fs, effects...)
}

func onlyProperty(prop string, fs []explore.Finding) []explore.Finding {
	var out []explore.Finding
	for _, f := range fs {
		if f.Property == prop {
			out = append(out, f)
		}
	}
	return out
}
