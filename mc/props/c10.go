package props

import (
	"fmt"
	"strconv"
	"strings"
	"time"

	packettypes "github.com/bianjieai/tibc-go/modules/tibc/core/04-packet/types"

	"verif/mc/explore"
	"verif/mc/world"
)

// CleanStepCheck judges clean transitions and the monotonicity of clean points (C10).
func CleanStepCheck(m *PktModel, w *world.World, ev *StepEvent) []explore.Finding {
	var fs []explore.Finding
	add := func(sig, detail string) {
		if m.Props["C10"] {
			fs = append(fs, explore.Finding{Property: "C10", Signature: sig, Detail: detail})
		}
	}
	if ev.Before == nil || ev.After == nil {
		return nil
	}
	bm, am := map[string][]byte{}, map[string][]byte{}
	for _, kv := range ev.Before {
		if !skipClients(kv) { // the honest relay step updates the verifying client first
			bm[kv.Store+"|"+string(kv.K)] = kv.V
		}
	}
	for _, kv := range ev.After {
		if !skipClients(kv) {
			am[kv.Store+"|"+string(kv.K)] = kv.V
		}
	}
	// clean points never decrease, on any transition
	for k, v := range bm {
		if strings.HasPrefix(k, "tibc|clean/") {
			nv, ok := am[k]
			if !ok || beUint(nv) < beUint(v) {
				add("clean-point-decreased", fmt.Sprintf("%s: %d -> %d", k, beUint(v), beUint(nv)))
			}
		}
	}
	if ev.Kind != "clean" && ev.Kind != "recvclean" {
		// only clean messages may remove receipts / acknowledgements
		for k := range bm {
			if _, ok := am[k]; !ok && (strings.HasPrefix(k, "tibc|receipts/") || strings.HasPrefix(k, "tibc|acks/")) {
				add("receipt-or-ack-removed-by-non-clean-message", k+" by "+ev.Label)
			}
		}
		return fs
	}
	if ev.Err != nil || !ev.Res.OK() {
		return fs
	}
	cp := ev.Clean
	ch := cp.SourceChain + "/" + cp.DestinationChain
	n := cp.Sequence
	prevKey := "tibc|clean/" + ch
	prev := beUint(bm[prevKey])
	if ev.Kind == "clean" {
		// reference rule on the source, from the ghost: N above the previous clean point, every sequence 1..N sent and acknowledged here
		if n <= prev {
			add("clean-accepted-not-above-clean-point", fmt.Sprintf("N=%d prev=%d", n, prev))
		}
		maxAcked := uint64(0)
		for seq := uint64(1); ; seq++ {
			r, ok := ev.GBefore.find(cp.SourceChain, cp.DestinationChain, seq)
			if !ok {
				break
			}
			if ev.GBefore.AckOK[pid(r.P)+"@"+cp.SourceChain] > 0 && seq > maxAcked {
				maxAcked = seq
			}
		}
		if n > maxAcked {
			add("clean-accepted-above-highest-acknowledged", fmt.Sprintf("N=%d highest acked=%d", n, maxAcked))
		}
		for seq := uint64(1); seq <= n; seq++ {
			r, ok := ev.GBefore.find(cp.SourceChain, cp.DestinationChain, seq)
			if !ok || ev.GBefore.AckOK[pid(r.P)+"@"+cp.SourceChain] == 0 {
				add("clean-accepted-with-unacknowledged-packet", fmt.Sprintf("N=%d, sequence %d not acknowledged", n, seq))
				break
			}
		}
	} else {
		// elsewhere: the previous hop must hold clean point N
		fromName := cp.SourceChain
		if cp.DestinationChain == ev.Chain.Name && cp.RelayChain != "" {
			fromName = cp.RelayChain
		}
		if w.C(fromName).CleanPoint(cp.SourceChain, cp.DestinationChain) != n {
			add("recvclean-accepted-without-source-clean-point:honest-step", fmt.Sprintf("N=%d", n))
		}
	}
	if beUint(am[prevKey]) != n {
		add("accepted-clean-did-not-set-clean-point", fmt.Sprintf("N=%d stored=%d", n, beUint(am[prevKey])))
	}
	// the diff of an accepted clean is within {clean key, receipts <= N, acks <= N} of that channel
	for k, v := range bm {
		nv, ok := am[k]
		if ok && string(nv) == string(v) {
			continue
		}
		if k == prevKey {
			continue
		}
		okDel := false
		for _, pre := range []string{"tibc|receipts/" + ch + "/sequences/", "tibc|acks/" + ch + "/sequences/"} {
			if strings.HasPrefix(k, pre) {
				if s, err := strconv.ParseUint(strings.TrimPrefix(k, pre), 10, 64); err == nil && s <= n && !ok {
					okDel = true
				}
			}
		}
		if !okDel {
			add("clean-touched-other-state", k)
		}
	}
	for k := range am {
		if _, ok := bm[k]; !ok && k != prevKey {
			add("clean-touched-other-state", "+"+k)
		}
	}
	// cleaning removes receipts and acknowledgements up to N on chains that hold them
	if ev.Kind == "recvclean" {
		for k := range am {
			for _, pre := range []string{"tibc|receipts/" + ch + "/sequences/", "tibc|acks/" + ch + "/sequences/"} {
				if strings.HasPrefix(k, pre) {
					if s, err := strconv.ParseUint(strings.TrimPrefix(k, pre), 10, 64); err == nil && s <= n {
						add("clean-left-receipt-or-ack-behind", k)
					}
				}
			}
		}
	}
	return fs
}

func beUint(b []byte) uint64 {
	var v uint64
	for _, x := range b {
		v = v<<8 | uint64(x)
	}
	return v
}

// CheckC10: cleanup.
func modelsC10(tier string) ([]*PktModel, []int) {
	props := map[string]bool{"C10": true}
	mk := func(name string, relay string, max int) *PktModel {
		m := &PktModel{Name: name, Names: []string{A, B, C}, Props: props, ProbeMode: "try",
			Setup:       func(w *world.World) { setRules(w, B, []string{"*,*,*"}) },
			UserActions: MockSendActions([]MockSend{{Label: "p", Src: A, Dst: C, Relay: relay, Data: "pkt", Max: max}}),
			StepCheck:   Steps(CoreStepCheck, CleanStepCheck)}
		return withCleans(m, uint64(max)+1)
	}
	models := []*PktModel{mk("direct-3-packets", "", 3), mk("via-relay-2-packets", B, 2)}
	depth := []int{11, 10}
	if tier == "thorough" {
		models = []*PktModel{mk("direct-3-packets", "", 3), mk("via-relay-3-packets", B, 3), mk("direct-4-packets", "", 4)}
		depth = []int{14, 14, 13}
	}
	return models, depth
}

func CheckC10(tier string) int {
	models, depth := modelsC10(tier)

	return RunPktExtra("C10", tier, models, depth, tierBudget(tier, 100*time.Second, 15*time.Minute), append([]string{
		"clean(N) is offered on the source for every N in 1..max+1 in every state; accepted cleans are judged against the ghost (which sequences were sent and acknowledged on the source); receive-clean messages without the source's clean point behind them are probes that must be rejected",
		"in all descendant states every packet and acknowledgement at or below a clean point is re-submitted with a fresh proof and must be rejected",
		"long channel (scripted): 12 packets sent and delivered on one channel, every set of at most two unacknowledged sequences, clean(N) for every N in 1..13 judged against the same rule (two-digit sequence numbers, where decimal keys sort differently from numbers)",
	}, commonAssumptions...), longChannelCleans(tier))
}

func init() {
	PktRegistry["C10"] = func(tier string) []*PktModel { m, _ := modelsC10(tier); return m }
}

// longChannelCleans: a channel with two-digit sequence numbers. For every set U of at most two unacknowledged sequences
// and every N, a clean request accepted on the source must satisfy the reference rule.
func longChannelCleans(tier string) []explore.Finding {
	const n = 12
	base := world.NewWorld(world.WorldOpts{Names: []string{A, B}})
	a, b := base.C(A), base.C(B)
	var pkts []packettypes.Packet
	for i := uint64(1); i <= n; i++ {
		p := packettypes.NewPacket([]byte(fmt.Sprintf("long-%d", i)), i, A, B, "", "tibcmock")
		if err := base.SendMock(a, p); err != nil {
			panic(err)
		}
		pkts = append(pkts, p)
	}
	for _, p := range pkts {
		if r, err := base.RelayRecv(p, b); err != nil || !r.OK() {
			panic(fmt.Sprint("long channel set-up: recv failed ", err, r.Log))
		}
	}
	delivered := base.Freeze()
	var subsets [][]uint64
	subsets = append(subsets, nil)
	for i := uint64(1); i <= n; i++ {
		subsets = append(subsets, []uint64{i})
		for j := i + 1; j <= n; j++ {
			subsets = append(subsets, []uint64{i, j})
		}
	}
	if tier != "thorough" {
		// quick: every single unacknowledged sequence, and pairs that straddle the one-digit / two-digit boundary
		var q [][]uint64
		for _, u := range subsets {
			if len(u) < 2 || (u[0] <= 3 && u[1] >= 9) {
				q = append(q, u)
			}
		}
		subsets = q
	}
	attempts, accepted := 0, 0
	fs := RunScripts(base, delivered, len(subsets), func(i int, w *world.World) []explore.Finding {
		u := subsets[i]
		un := map[uint64]bool{}
		for _, s := range u {
			un[s] = true
		}
		wa, wb := w.C(A), w.C(B)
		maxAcked := uint64(0)
		for _, p := range pkts {
			if un[p.Sequence] {
				continue
			}
			if r, err := w.RelayAck(p, []byte("mock acknowledgement"), wa); err != nil || !r.OK() {
				panic(fmt.Sprint("long channel set-up: ack failed ", err, r.Log))
			}
			maxAcked = p.Sequence
		}
		_ = wb
		var out []explore.Finding
		for N := uint64(1); N <= n+1; N++ {
			msg := &packettypes.MsgCleanPacket{CleanPacket: packettypes.CleanPacket{Sequence: N, SourceChain: A, DestinationChain: B}, Signer: wa.Relayer().Addr.String()}
			_, err := w.Try(wa, msg)
			ok := true
			for s := uint64(1); s <= N; s++ {
				if un[s] {
					ok = false
				}
			}
			rule := N <= maxAcked && ok
			if err == nil && !rule {
				out = append(out, explore.Finding{Property: "C10", Signature: "clean-accepted-with-unacknowledged-packet:long-channel",
					Detail: fmt.Sprintf("12 packets delivered, unacknowledged %v (highest acknowledged %d): clean(%d) accepted on the source", u, maxAcked, N),
					Path:   []string{"long-channel", fmt.Sprintf("unacknowledged=%v", u), fmt.Sprintf("clean(%d)", N)}})
			}
			_ = i
		}
		return out
	})
	for range subsets {
		attempts += n + 1
	}
	_ = accepted
	ExtraCoverage["long_channel"] = map[string]any{"packets": n, "unacknowledged_sets": len(subsets), "clean_attempts": attempts}
	return fs
}
