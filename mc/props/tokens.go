package props

import (
	"bytes"
	"encoding/json"
	"fmt"
	"math/big"
	"sort"
	"strings"

	sdk "github.com/cosmos/cosmos-sdk/types"
	authtypes "github.com/cosmos/cosmos-sdk/x/auth/types"
	mttypes "mods.irisnet.org/modules/mt/types"
	nfttypes "mods.irisnet.org/modules/nft/types"

	mttransfer "github.com/bianjieai/tibc-go/modules/tibc/apps/mt_transfer/types"
	nfttransfer "github.com/bianjieai/tibc-go/modules/tibc/apps/nft_transfer/types"
	packettypes "github.com/bianjieai/tibc-go/modules/tibc/core/04-packet/types"

	"verif/mc/explore"
	"verif/mc/world"
)

// NftModAddr is the escrow account of the NFT transfer module (same on every chain).
var NftModAddr = authtypes.NewModuleAddress(nfttransfer.ModuleName).String()

// MtModAddr is the escrow account of the MT transfer module.
var MtModAddr = authtypes.NewModuleAddress(mttransfer.ModuleName).String()

// NftHoldings returns "class|id" -> owner for every NFT on the chain.
func NftHoldings(c *world.Chain) map[string]string {
	ctx := c.ReadCtx(c.LastTime())
	cols, err := c.App.NftKeeper.GetCollections(ctx)
	if err != nil {
		panic(err)
	}
	out := map[string]string{}
	for _, col := range cols {
		for _, n := range col.NFTs {
			out[col.Denom.Id+"|"+n.GetID()] = n.GetOwner().String()
		}
	}
	return out
}

// MtState is the multi-token state of a chain: balances "class|id|owner" -> amount and supplies "class|id" -> amount.
type MtState struct {
	Bal    map[string]uint64
	Supply map[string]uint64
}

// MtHoldings parses the mt store.
func MtHoldings(c *world.Chain) MtState {
	st := MtState{Bal: map[string]uint64{}, Supply: map[string]uint64{}}
	ctx := c.ReadCtx(c.LastTime())
	key := c.App.GetKey(mttypes.StoreKey)
	for _, kv := range world.DumpStore(ctx, "mt", key, mttypes.PrefixBalance) {
		parts := bytes.Split(kv.K, mttypes.Delimiter)
		if len(parts) != 4 {
			continue
		}
		st.Bal[string(parts[2])+"|"+string(parts[3])+"|"+string(parts[1])] = mttypes.MustUnMarshalAmount(c.App.AppCodec(), kv.V)
	}
	for _, kv := range world.DumpStore(ctx, "mt", key, mttypes.PrefixSupply) {
		parts := bytes.Split(kv.K, mttypes.Delimiter)
		if len(parts) != 3 || len(parts[2]) == 0 {
			continue // denom-level supply (number of MTs in the denom)
		}
		st.Supply[string(parts[1])+"|"+string(parts[2])] = mttypes.MustUnMarshalAmount(c.App.AppCodec(), kv.V)
	}
	return st
}

// User returns the i-th user account (1-based) of a chain.
func User(c *world.Chain, i int) world.Account { return c.Accounts[i] }

// MintNative issues a denom and mints an NFT through real transactions (scenario set-up or adversarial action).
func MintNative(w *world.World, c *world.Chain, owner world.Account, class, id string) world.TxRes {
	r := w.Tx(c, owner, nfttypes.NewMsgIssueDenom(class, class, "", owner.Addr.String(), "", false, false, "", "", "", ""))
	if !r.OK() {
		return r
	}
	return w.Tx(c, owner, nfttypes.NewMsgMintNFT(id, class, "", "uri-"+id, "", "", owner.Addr.String(), owner.Addr.String()))
}

func totalSends(g Ghost) int {
	n := 0
	for _, v := range g.Sends {
		n += v
	}
	return n
}

// NftScenario configures the NFT user-action menu.
type NftScenario struct {
	MaxUserTx   int
	Relays      bool     // also offer transfers through a relay chain
	Receivers   []int    // receiver account indices on the destination
	BadReceiver bool     // also offer a transfer to an invalid receiver address (error ack)
	AdvClasses  []string // adversarial native classes a user of a non-origin chain may issue (token id tok1)
	AdvChains   []string
	MaxAdv      int
	Burns       bool
	// Thieves: for every user-held NFT the other user of the chain also tries to transfer it away
	Thieves bool
	// OddDests: destination names that are no chain of the world (too short, containing '/'); offered through a relay
	// chain, which is what lets the packet layer accept the send
	OddDests []string
	// MintInto: users also try MsgMintNFT of tok1 / tok7 into every class that exists on their chain (voucher classes
	// included); counts against MaxAdv when it succeeds
	MintInto bool
}

func isUser(c *world.Chain, addr string) (world.Account, bool) {
	for _, a := range c.Accounts[1:] {
		if a.Addr.String() == addr {
			return a, true
		}
	}
	return world.Account{}, false
}

// NftUserActions enumerates the user transactions enabled in the mounted state.
func (s NftScenario) Actions(m *PktModel, w *world.World, g Ghost) []UserAction {
	var out []UserAction
	if totalSends(g) >= s.MaxUserTx {
		return nil
	}
	for _, c := range w.Chains {
		c := c
		hold := NftHoldings(c)
		var keys []string
		for k := range hold {
			keys = append(keys, k)
		}
		sort.Strings(keys)
		for _, k := range keys {
			owner, ok := isUser(c, hold[k])
			if !ok {
				continue
			}
			parts := strings.SplitN(k, "|", 2)
			class, id := parts[0], parts[1]
			for _, d := range w.Chains {
				if d == c {
					continue
				}
				relays := []string{""}
				if s.Relays {
					if t := thirdChain(w, c.Name, d.Name); t != "" {
						relays = append(relays, t)
					}
				}
				for _, relay := range relays {
					var recvs []string
					for _, ri := range s.Receivers {
						recvs = append(recvs, d.Accounts[ri].Addr.String())
					}
					if s.BadReceiver {
						recvs = append(recvs, "not-an-address")
					}
					for ri, recv := range recvs {
						d, relay, recv := d, relay, recv
						label := fmt.Sprintf("xfer:%s:%s/%s>%s/%s:r%d", c.Name, class, id, d.Name, relay, ri)
						out = append(out, UserAction{Label: label, On: c.Name, Run: func(w *world.World) (*world.Chain, world.TxRes) {
							cc := w.C(c.Name)
							msg := nfttransfer.NewMsgNftTransfer(class, id, owner.Addr.String(), recv, d.Name, relay, "")
							return cc, w.Tx(cc, owner, msg)
						}})
					}
				}
			}
			for _, od := range s.OddDests {
				for _, rc := range w.Chains {
					if rc == c {
						continue
					}
					od, relay := od, rc.Name
					label := fmt.Sprintf("xfer:%s:%s/%s>%s/%s:r0", c.Name, class, id, od, relay)
					out = append(out, UserAction{Label: label, On: c.Name, Run: func(w *world.World) (*world.Chain, world.TxRes) {
						cc := w.C(c.Name)
						msg := nfttransfer.NewMsgNftTransfer(class, id, owner.Addr.String(), "someone", od, relay, "")
						return cc, w.Tx(cc, owner, msg)
					}})
					break
				}
			}
			if s.Burns {
				label := fmt.Sprintf("burn:%s:%s/%s", c.Name, class, id)
				out = append(out, UserAction{Label: label, On: c.Name, Run: func(w *world.World) (*world.Chain, world.TxRes) {
					cc := w.C(c.Name)
					return cc, w.Tx(cc, owner, nfttypes.NewMsgBurnNFT(owner.Addr.String(), id, class))
				}})
			}
		}
	}
	if s.Thieves {
		out = append(out, notOwnerSends(w, "steal")...)
	}
	nAdv := 0
	for k, v := range g.Sends {
		if strings.HasPrefix(k, "mintadv:") {
			nAdv += v
		}
	}
	if s.MintInto && nAdv < s.MaxAdv {
		for _, c := range w.Chains {
			c := c
			ctx := c.ReadCtx(c.LastTime())
			cols, _ := c.App.NftKeeper.GetCollections(ctx)
			for _, col := range cols {
				class := col.Denom.Id
				if !strings.HasPrefix(class, "tibc-") {
					continue // users may of course mint into native classes they own; that is covered by mintadv
				}
				for _, id := range []string{"tok1", "tok7"} {
					if _, exists := NftHoldings(c)[class+"|"+id]; exists {
						continue
					}
					id := id
					label := fmt.Sprintf("mintadv:into:%s:%s/%s", c.Name, class, id)
					out = append(out, UserAction{Label: label, On: c.Name, Run: func(w *world.World) (*world.Chain, world.TxRes) {
						cc := w.C(c.Name)
						u := User(cc, 1)
						return cc, w.Tx(cc, u, nftMint(id, class, u))
					}})
				}
			}
		}
	}
	if nAdv < s.MaxAdv {
		for _, cn := range s.AdvChains {
			for _, class := range s.AdvClasses {
				cn, class := cn, class
				label := fmt.Sprintf("mintadv:%s:%s/tok1", cn, class)
				if g.Sends[label] > 0 {
					continue
				}
				out = append(out, UserAction{Label: label, On: cn, Run: func(w *world.World) (*world.Chain, world.TxRes) {
					cc := w.C(cn)
					return cc, MintNative(w, cc, User(cc, 2), class, "tok1")
				}})
			}
		}
	}
	return out
}

// ---------------------------------------------------------------------------------------------
// NFT identity ghost (C04). Identities are assigned by history, never by parsing class paths.

func nftKey(chain, ci string) string { return "nft|" + chain + "|" + ci }

// NftObserve is the Observe hook.
func NftObserve(c *world.Chain) any { return NftHoldings(c) }

func newPkts(before, after Ghost) []PktRec {
	var out []PktRec
	for _, r := range after.Pkts {
		if _, ok := before.find(r.P.SourceChain, r.P.DestinationChain, r.P.Sequence); !ok {
			out = append(out, r)
		}
	}
	return out
}

// NftStep updates the identity ghost for one transition and judges it (C04, plus C11/C19 facts about token state).
func NftStep(m *PktModel, w *world.World, ev *StepEvent) []explore.Finding {
	var fs []explore.Finding
	add := func(prop, sig, detail string) {
		if m.Props[prop] {
			fs = append(fs, explore.Finding{Property: prop, Signature: sig, Detail: detail})
		}
	}
	if ev.Chain == nil || ev.ObsBefore == nil || ev.ObsAfter == nil {
		return nil
	}
	hb, ha := ev.ObsBefore.(map[string]string), ev.ObsAfter.(map[string]string)
	chain := ev.Chain.Name
	g := ev.GAfter
	type change struct{ ci, from, to string }
	var created, removed, moved []change
	for ci, ob := range hb {
		oa, ok := ha[ci]
		switch {
		case !ok:
			removed = append(removed, change{ci, ob, ""})
		case oa != ob:
			moved = append(moved, change{ci, ob, oa})
		}
	}
	for ci, oa := range ha {
		if _, ok := hb[ci]; !ok {
			created = append(created, change{ci, "", oa})
		}
	}
	desc := func() string { return fmt.Sprintf("created=%v removed=%v moved=%v", created, removed, moved) }
	noChange := func(prop, sig string) {
		if len(created)+len(removed)+len(moved) > 0 {
			add(prop, sig, desc())
		}
	}
	ok := ev.Err == nil && ev.Res.OK()
	switch {
	case ev.Kind == "user" && strings.HasPrefix(ev.Label, "mintadv:"), ev.Kind == "user" && strings.HasPrefix(ev.Label, "mint:"):
		for _, c := range created {
			g.Extra[nftKey(chain, c.ci)] = "native:" + chain + ":" + c.ci
			if strings.HasPrefix(c.ci, "tibc-") {
				add("C04", "voucher-created-without-delivered-packet", fmt.Sprintf("%s: a user transaction minted %s in a voucher class", ev.Label, c.ci))
			}
		}
	case ev.Kind == "user" && strings.HasPrefix(ev.Label, "burn:"):
		for _, c := range removed {
			id := g.Extra[nftKey(chain, c.ci)]
			delete(g.Extra, nftKey(chain, c.ci))
			g.Extra["burned|"+id] = "1"
		}
	case ev.Kind == "user" && strings.HasPrefix(ev.Label, "xfer:"):
		if !ok {
			noChange("C09", "failed-send-changed-token-state")
			return fs
		}
		np := newPkts(ev.GBefore, *g)
		if len(np) != 1 {
			add("C09", "send-did-not-announce-exactly-one-packet", fmt.Sprint(len(np)))
			return fs
		}
		var identity string
		switch {
		case len(moved) == 1 && len(created)+len(removed) == 0 && moved[0].to == NftModAddr:
			identity = g.Extra[nftKey(chain, moved[0].ci)] // escrowed: the instance keeps its identity
		case len(removed) == 1 && len(created)+len(moved) == 0:
			identity = g.Extra[nftKey(chain, removed[0].ci)]
			delete(g.Extra, nftKey(chain, removed[0].ci))
		default:
			add("C04", "send-changed-more-than-the-sent-token", desc())
			return fs
		}
		g.Extra["fly|"+pid(np[0].P)] = identity
	case ev.Kind == "recv" && ok && ev.Pkt.Port == "NFT" && ev.Pkt.DestinationChain == chain:
		id := pid(ev.Pkt)
		flying := g.Extra["fly|"+id]
		ackHex := g.AckBytes[id+"@"+chain]
		ack := mustHex(ackHex)
		if isErrorAck(ack) {
			noChange("C19", "error-ack-left-token-effects")
			return fs
		}
		var data nfttransfer.NonFungibleTokenPacketData
		_ = data.Unmarshal(ev.Pkt.Data)
		switch {
		case len(created) == 1 && len(removed)+len(moved) == 0:
			g.Extra[nftKey(chain, created[0].ci)] = flying
			if created[0].to != data.Receiver {
				add("C04", "voucher-minted-to-someone-else", desc())
			}
		case len(moved) == 1 && len(created)+len(removed) == 0 && moved[0].from == NftModAddr:
			have := g.Extra[nftKey(chain, moved[0].ci)]
			if have != flying {
				add("C04", "escrow-released-to-wrong-claimant", fmt.Sprintf("escrowed %s on %s has identity %q but the packet carries %q", moved[0].ci, chain, have, flying))
			}
			if moved[0].to != data.Receiver {
				add("C04", "escrow-released-to-someone-else", desc())
			}
		default:
			add("C04", "delivery-changed-unexpected-tokens", desc())
		}
		delete(g.Extra, "fly|"+id)
		if flying == "" {
			add("C04", "voucher-without-delivered-packet", id)
		}
	case ev.Kind == "ack" && ok && ev.Pkt.Port == "NFT" && ev.Pkt.SourceChain == chain:
		id := pid(ev.Pkt)
		if !isErrorAck(ev.Ack) {
			noChange("C04", "success-ack-changed-token-state")
			return fs
		}
		flying := g.Extra["fly|"+id]
		var data nfttransfer.NonFungibleTokenPacketData
		_ = data.Unmarshal(ev.Pkt.Data)
		switch {
		case len(created) == 1 && len(removed)+len(moved) == 0:
			g.Extra[nftKey(chain, created[0].ci)] = flying
			if created[0].to != data.Sender {
				add("C06", "refund-to-someone-else", desc())
				add("C04", "refund-to-someone-else", desc())
			}
		case len(moved) == 1 && len(created)+len(removed) == 0 && moved[0].from == NftModAddr:
			if have := g.Extra[nftKey(chain, moved[0].ci)]; have != flying {
				add("C04", "escrow-released-to-wrong-claimant", fmt.Sprintf("refund of %s released %s with identity %q, packet carried %q", id, moved[0].ci, have, flying))
			}
			if moved[0].to != data.Sender {
				add("C06", "refund-to-someone-else", desc())
				add("C04", "refund-to-someone-else", desc())
			}
		default:
			add("C06", "refund-changed-unexpected-tokens", desc())
		}
		delete(g.Extra, "fly|"+id)
	default:
		// relay-chain pass-through, failed messages, cleans, mock traffic: token state must not move
		if ev.Kind == "recv" || ev.Kind == "ack" {
			if ok && ev.Pkt.RelayChain == chain {
				noChange("C11", "relay-chain-token-state-changed")
			} else if !ok {
				noChange("C19", "failed-message-changed-token-state")
			}
		}
	}
	return fs
}

func mustHex(s string) []byte {
	var b []byte
	fmt.Sscanf(s, "%x", &b)
	return b
}

// NftInvariant: every native identity has exactly one live holder (user-held instance or packet in flight).
func NftInvariant(m *PktModel, w *world.World, st PState) []explore.Finding {
	if !m.Props["C04"] {
		return nil
	}
	holders := map[string][]string{}
	for _, c := range w.Chains {
		for ci, owner := range NftHoldings(c) {
			id, known := st.G.Extra[nftKey(c.Name, ci)]
			if !known {
				return []explore.Finding{{Property: "C04", Signature: "token-instance-without-history", Detail: c.Name + " " + ci}}
			}
			if owner != NftModAddr {
				holders[id] = append(holders[id], c.Name+":"+ci+"@"+owner)
			} else if _, ok := holders[id]; !ok {
				holders[id] = nil
			}
		}
	}
	for k, id := range st.G.Extra {
		if strings.HasPrefix(k, "fly|") {
			holders[id] = append(holders[id], "in-flight:"+strings.TrimPrefix(k, "fly|"))
		}
	}
	var fs []explore.Finding
	var ids []string
	for id := range holders {
		ids = append(ids, id)
	}
	sort.Strings(ids)
	for _, id := range ids {
		hs := holders[id]
		if st.G.Extra["burned|"+id] == "1" && len(hs) == 0 {
			continue
		}
		if len(hs) != 1 {
			sig := "nft-duplicated"
			if len(hs) == 0 {
				sig = "nft-lost"
			}
			fs = append(fs, explore.Finding{Property: "C04", Signature: sig, Detail: fmt.Sprintf("identity %s has holders %v", id, hs)})
		}
	}
	return fs
}

// ---------------------------------------------------------------------------------------------
// MT conservation ghost (C05)

type mtFly struct {
	Identity  string
	Amount    uint64
	FromChain string
	FromClass string // class|id on the sending chain
	Away      bool
}

func mtNode(chain, ci string) string { return "mtnode|" + chain + "|" + ci }

// MtObserve is the Observe hook for MT scenarios.
func MtObserve(c *world.Chain) any { return MtHoldings(c) }

func bigOf(u uint64) *big.Int { return new(big.Int).SetUint64(u) }

// MtStep maintains identity / parent links of MT classes from history.
func MtStep(m *PktModel, w *world.World, ev *StepEvent) []explore.Finding {
	var fs []explore.Finding
	add := func(prop, sig, detail string) {
		if m.Props[prop] {
			fs = append(fs, explore.Finding{Property: prop, Signature: sig, Detail: detail})
		}
	}
	if ev.Chain == nil || ev.ObsBefore == nil || ev.ObsAfter == nil {
		return nil
	}
	hb, ha := ev.ObsBefore.(MtState), ev.ObsAfter.(MtState)
	chain := ev.Chain.Name
	g := ev.GAfter
	ok := ev.Err == nil && ev.Res.OK()
	diff := map[string]*big.Int{} // class|id|owner -> delta
	for k, v := range ha.Bal {
		d := new(big.Int).Sub(bigOf(v), bigOf(hb.Bal[k]))
		if d.Sign() != 0 {
			diff[k] = d
		}
	}
	for k, v := range hb.Bal {
		if _, ok := ha.Bal[k]; !ok && v != 0 {
			diff[k] = new(big.Int).Neg(bigOf(v))
		}
	}
	desc := func() string {
		var ks []string
		for k, d := range diff {
			ks = append(ks, k+":"+d.String())
		}
		sort.Strings(ks)
		return strings.Join(ks, " ")
	}
	noChange := func(prop, sig string) {
		if len(diff) > 0 {
			add(prop, sig, desc())
		}
	}
	switch {
	case ev.Kind == "user" && strings.HasPrefix(ev.Label, "mtxfer:"):
		if !ok {
			noChange("C09", "failed-send-changed-token-state")
			return fs
		}
		np := newPkts(ev.GBefore, *g)
		if len(np) != 1 {
			add("C09", "send-did-not-announce-exactly-one-packet", fmt.Sprint(len(np)))
			return fs
		}
		var data mttransfer.MultiTokenPacketData
		_ = data.Unmarshal(np[0].P.Data)
		// which class|id lost units from a user
		var ci string
		for k, d := range diff {
			parts := strings.Split(k, "|")
			if d.Sign() < 0 && parts[2] != MtModAddr {
				ci = parts[0] + "|" + parts[1]
			}
		}
		if ci == "" {
			add("C05", "send-took-nothing-from-the-sender", desc())
			return fs
		}
		fl := mtFly{Identity: g.Extra[mtNode(chain, ci)], Amount: data.Amount, FromChain: chain, FromClass: ci, Away: data.AwayFromOrigin}
		bz, _ := json.Marshal(fl)
		g.Extra["mtfly|"+pid(np[0].P)] = string(bz)
	case ev.Kind == "recv" && ok && ev.Pkt.Port == "MT" && ev.Pkt.DestinationChain == chain:
		id := pid(ev.Pkt)
		ack := mustHex(g.AckBytes[id+"@"+chain])
		if isErrorAck(ack) {
			noChange("C19", "error-ack-left-token-effects")
			return fs
		}
		var fl mtFly
		_ = json.Unmarshal([]byte(g.Extra["mtfly|"+id]), &fl)
		for k, d := range diff {
			parts := strings.Split(k, "|")
			if d.Sign() > 0 && parts[2] != MtModAddr {
				ci := parts[0] + "|" + parts[1]
				node := mtNode(chain, ci)
				if have, known := g.Extra[node]; known && have != fl.Identity {
					add("C05", "units-credited-to-a-class-of-another-asset", fmt.Sprintf("%s on %s is %q, packet carries %q", ci, chain, have, fl.Identity))
				}
				if _, known := g.Extra[node]; !known {
					g.Extra[node] = fl.Identity
					g.Extra["mtparent|"+chain+"|"+ci] = fl.FromChain + "|" + fl.FromClass
				}
			}
		}
		delete(g.Extra, "mtfly|"+id)
	case ev.Kind == "ack" && ok && ev.Pkt.Port == "MT" && ev.Pkt.SourceChain == chain:
		id := pid(ev.Pkt)
		if !isErrorAck(ev.Ack) {
			noChange("C05", "success-ack-changed-token-state")
			// completed: the in-flight record was consumed at delivery
			return fs
		}
		delete(g.Extra, "mtfly|"+id)
	default:
		if ev.Kind == "recv" || ev.Kind == "ack" {
			if ok && ev.Pkt.RelayChain == chain {
				noChange("C11", "relay-chain-token-state-changed")
			} else if !ok {
				noChange("C19", "failed-message-changed-token-state")
			}
		}
	}
	return fs
}

// MtInvariant checks conservation in big integers.
func MtInvariant(m *PktModel, w *world.World, st PState) []explore.Finding {
	if !m.Props["C05"] {
		return nil
	}
	var fs []explore.Finding
	add := func(sig, detail string) {
		fs = append(fs, explore.Finding{Property: "C05", Signature: sig, Detail: detail})
	}
	states := map[string]MtState{}
	for _, c := range w.Chains {
		states[c.Name] = MtHoldings(c)
	}
	// stored supply == sum of balances, per class|id
	userHeld := map[string]*big.Int{}   // identity -> units held by users anywhere
	classTotal := map[string]*big.Int{} // chain|class|id -> all balances
	escrow := map[string]*big.Int{}     // chain|class|id -> module balance
	for cn, s := range states {
		sum := map[string]*big.Int{}
		for k, v := range s.Bal {
			parts := strings.Split(k, "|")
			ci := parts[0] + "|" + parts[1]
			if sum[ci] == nil {
				sum[ci] = new(big.Int)
			}
			sum[ci].Add(sum[ci], bigOf(v))
			node := cn + "|" + ci
			if parts[2] == MtModAddr {
				escrow[node] = bigOf(v)
			} else if v > 0 {
				id, known := st.G.Extra[mtNode(cn, ci)]
				if !known {
					add("mt-units-without-history", node)
					continue
				}
				if userHeld[id] == nil {
					userHeld[id] = new(big.Int)
				}
				userHeld[id].Add(userHeld[id], bigOf(v))
			}
		}
		for ci, tot := range sum {
			classTotal[cn+"|"+ci] = tot
			if sup, ok := s.Supply[ci]; !ok || bigOf(sup).Cmp(tot) != 0 {
				add("stored-supply-differs-from-balances", fmt.Sprintf("%s %s supply=%d balances=%s", cn, ci, sup, tot))
			}
		}
		for ci, sup := range s.Supply {
			if _, ok := sum[ci]; !ok && sup != 0 {
				add("stored-supply-differs-from-balances", fmt.Sprintf("%s %s supply=%d balances=0", cn, ci, sup))
			}
		}
	}
	inflight := map[string]*big.Int{}   // identity -> units in flight
	edgeFlight := map[string]*big.Int{} // escrow node (chain|class|id) -> units in flight on edges to its children
	for k, v := range st.G.Extra {
		if !strings.HasPrefix(k, "mtfly|") {
			continue
		}
		var fl mtFly
		_ = json.Unmarshal([]byte(v), &fl)
		if inflight[fl.Identity] == nil {
			inflight[fl.Identity] = new(big.Int)
		}
		inflight[fl.Identity].Add(inflight[fl.Identity], bigOf(fl.Amount))
		// the escrow that backs these units: the sender's class when moving away, the sender's parent when moving back
		node := fl.FromChain + "|" + fl.FromClass
		if !fl.Away {
			node = st.G.Extra["mtparent|"+fl.FromChain+"|"+fl.FromClass]
		}
		if edgeFlight[node] == nil {
			edgeFlight[node] = new(big.Int)
		}
		edgeFlight[node].Add(edgeFlight[node], bigOf(fl.Amount))
	}
	// user-held + in flight == minted - burned, per native identity
	for k, v := range st.G.Extra {
		if !strings.HasPrefix(k, "mtminted|") {
			continue
		}
		id := strings.TrimPrefix(k, "mtminted|")
		minted, _ := new(big.Int).SetString(v, 10)
		have := new(big.Int)
		if userHeld[id] != nil {
			have.Add(have, userHeld[id])
		}
		if inflight[id] != nil {
			have.Add(have, inflight[id])
		}
		if have.Cmp(minted) != 0 {
			add("units-not-conserved", fmt.Sprintf("identity %s: minted %s, user-held+in-flight %s", id, minted, have))
		}
	}
	// escrow(node) == sum over children of everything that exists of the child class + in flight on those edges
	children := map[string]*big.Int{}
	for k, parent := range st.G.Extra {
		if !strings.HasPrefix(k, "mtparent|") {
			continue
		}
		child := strings.TrimPrefix(k, "mtparent|")
		if children[parent] == nil {
			children[parent] = new(big.Int)
		}
		if t := classTotal[child]; t != nil {
			children[parent].Add(children[parent], t)
		}
	}
	nodes := map[string]bool{}
	for n := range escrow {
		nodes[n] = true
	}
	for n := range children {
		nodes[n] = true
	}
	for n := range edgeFlight {
		nodes[n] = true
	}
	for n := range nodes {
		want := new(big.Int)
		if children[n] != nil {
			want.Add(want, children[n])
		}
		if edgeFlight[n] != nil {
			want.Add(want, edgeFlight[n])
		}
		have := new(big.Int)
		if escrow[n] != nil {
			have = escrow[n]
		}
		if have.Cmp(want) != 0 {
			add("escrow-differs-from-vouchers-plus-in-flight", fmt.Sprintf("%s: escrow %s, vouchers further along + in flight %s", n, have, want))
		}
	}
	return fs
}

var _ = sdk.AccAddress{}
var _ packettypes.Packet

// nftMint builds a MsgMintNFT to the owner.
func nftMint(id, class string, owner world.Account) sdk.Msg {
	return nfttypes.NewMsgMintNFT(id, class, "", "uri-"+id, "", "", owner.Addr.String(), owner.Addr.String())
}

// nftOnly restricts an NFT scenario's transfers to one token id.
func nftOnly(s NftScenario, id string) func(m *PktModel, w *world.World, g Ghost) []UserAction {
	return func(m *PktModel, w *world.World, g Ghost) []UserAction {
		var out []UserAction
		for _, a := range s.Actions(m, w, g) {
			if strings.Contains(a.Label, "/"+id+">") {
				out = append(out, a)
			}
		}
		return out
	}
}
