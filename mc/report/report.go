// Package report classifies findings against the committed known-findings file, writes evidence and replay
// artefacts, and prints the VIOLATION / KNOWN-FINDING lines of the check interface.
package report

import (
	"crypto/sha256"
	"encoding/json"
	"fmt"
	"os"
	"path/filepath"
	"sort"
	"strings"
	"time"

	"verif/mc/explore"
)

// Root is the /verif directory.
var Root = "/verif"

// Known is one entry of known_findings.json.
type Known struct {
	Property  string `json:"property"`
	Signature string `json:"signature"` // exact match against Finding.Signature
	Status    string `json:"status"`    // "known" or "fixed"
	Commit    string `json:"commit,omitempty"`
	What      string `json:"what"`
}

// LoadKnown reads the known-findings file.
func LoadKnown() []Known {
	bz, err := os.ReadFile(filepath.Join(Root, "known_findings.json"))
	if err != nil {
		return nil
	}
	var f struct {
		Findings []Known `json:"findings"`
	}
	if err := json.Unmarshal(bz, &f); err != nil {
		fmt.Fprintln(os.Stderr, "known_findings.json unreadable:", err)
		os.Exit(2)
	}
	return f.Findings
}

// Evidence is the evidence file content.
type Evidence struct {
	PropertyID  string         `json:"property_id"`
	Tier        string         `json:"tier"`
	Seed        int            `json:"seed"`
	Level       string         `json:"level"`
	Coverage    map[string]any `json:"coverage"`
	Assumptions []string       `json:"assumptions"`
	WallS       float64        `json:"wall_s"`
	Violations  int            `json:"violations"`
}

// Outcome is the classified result of a check.
type Outcome struct {
	Violations []explore.Finding
	KnownSeen  map[string]int
}

// Classify splits findings of property prop into new violations and listed known findings. A finding matches
// a known entry only by exact signature and only if the entry's status is "known" (fixed entries suppress nothing).
func Classify(prop string, fs []explore.Finding) Outcome {
	known := LoadKnown()
	o := Outcome{KnownSeen: map[string]int{}}
	seenSig := map[string]bool{}
	for _, f := range fs {
		matched := false
		for _, k := range known {
			if k.Status == "known" && k.Property == f.Property && k.Signature == f.Signature {
				o.KnownSeen[k.Signature]++
				matched = true
				break
			}
		}
		if matched {
			continue
		}
		if seenSig[f.Property+"|"+f.Signature] {
			continue // report the shortest instance per signature
		}
		seenSig[f.Property+"|"+f.Signature] = true
		o.Violations = append(o.Violations, f)
	}
	return o
}

// Finish writes replay artefacts + evidence, prints interface lines and returns the exit code.
func Finish(prop, tier string, start time.Time, level string, coverage map[string]any, assumptions []string, fs []explore.Finding) int {
	o := Classify(prop, fs)
	known := LoadKnown()
	var ks []string
	for sig := range o.KnownSeen {
		ks = append(ks, sig)
	}
	sort.Strings(ks)
	for _, sig := range ks {
		what := ""
		for _, k := range known {
			if k.Signature == sig && k.Property == prop {
				what = k.What
			}
		}
		fmt.Printf("KNOWN-FINDING: property=%s %s — %s (seen %d times)\n", prop, sig, what, o.KnownSeen[sig])
	}
	coverage["known_findings_seen"] = o.KnownSeen
	os.MkdirAll(filepath.Join(Root, "evidence", "replays"), 0o755)
	for _, v := range o.Violations {
		h := sha256.Sum256([]byte(v.Signature + strings.Join(v.Path, ">") + v.Probe))
		p := filepath.Join(Root, "evidence", "replays", fmt.Sprintf("%s-%x.json", prop, h[:6]))
		bz, _ := json.MarshalIndent(map[string]any{"property": v.Property, "signature": v.Signature, "detail": v.Detail,
			"tier": tier, "path": v.Path, "probe": v.Probe}, "", " ")
		os.WriteFile(p, bz, 0o644)
		fmt.Printf("VIOLATION property=%s replay=%s\n", prop, p)
		fmt.Printf("  signature: %s\n  detail: %s\n  path: %v\n  probe: %s\n", v.Signature, v.Detail, v.Path, v.Probe)
	}
	seed := 0
	fmt.Sscan(os.Getenv("VERIF_SEED"), &seed)
	ev := Evidence{PropertyID: prop, Tier: tier, Seed: seed, Level: level, Coverage: coverage, Assumptions: assumptions,
		WallS: time.Since(start).Seconds(), Violations: len(o.Violations)}
	bz, _ := json.MarshalIndent(ev, "", " ")
	must(os.WriteFile(filepath.Join(Root, "evidence", prop+".json"), bz, 0o644))
	if len(o.Violations) > 0 {
		return 1
	}
	fmt.Printf("OK property=%s tier=%s wall=%.1fs\n", prop, tier, time.Since(start).Seconds())
	return 0
}

func must(err error) {
	if err != nil {
		panic(err)
	}
}
